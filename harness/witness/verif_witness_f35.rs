//! Witness for F35 (property C02/C12): a row written by the local mutation path must be accepted
//! by the receiving path (`validate_json_for_entity`, called by `GraphDatabase::add_nodes`).
//! Suspicion: explicit JSON null stored by the mutation path for a nullable scalar field is refused
//! by the receiving side.
#![allow(clippy::all)]

use std::{collections::HashSet, fs, path::PathBuf, time::Duration};

use crate::{
    configuration::Configuration,
    database::{
        graph_database::GraphDatabaseService,
        node::{Node, NodeIdentifier},
        query_language::parameter::{Parameters, ParametersAdd},
        room_node::RoomNode,
    },
    event_service::EventService,
    security::{base64_encode, derive_key, random32, Ed25519SigningKey, Uid},
};

const DATA_PATH: &str = "test_data/database/verif_witness_f35/";
const APP_KEY: &str = "verif witness f35";

const DATA_MODEL: &str = "{
    Person{
        name:String,
        nickname:String nullable,
        age:Integer nullable,
        score:Float nullable,
        ok:Boolean nullable,
        data:Json nullable,
        bin:Base64 nullable
    }
}";

fn init_database_path() {
    let path: PathBuf = DATA_PATH.into();
    fs::create_dir_all(&path).unwrap();
}

async fn start() -> (GraphDatabaseService, Vec<u8>, Ed25519SigningKey) {
    let secret = random32();
    let path: PathBuf = DATA_PATH.into();
    let (app, verifying_key, _) = GraphDatabaseService::start(
        APP_KEY,
        DATA_MODEL,
        &secret,
        &random32(),
        path,
        &Configuration::default(),
        EventService::new(),
    )
    .await
    .unwrap();
    //same derivation as GraphDatabase::new
    let signature_key = derive_key(&format!("{} SIGNING_KEY", APP_KEY), &secret);
    let signing_key = Ed25519SigningKey::create_from(&signature_key);
    (app, verifying_key, signing_key)
}

/// A creates a room (admin A, one authorisation granting A every right on Person) and B imports it
async fn create_and_share_room(
    a: &GraphDatabaseService,
    a_key: &[u8],
    b: &GraphDatabaseService,
) -> Uid {
    let mut param = Parameters::default();
    param.add("user_id", base64_encode(a_key)).unwrap();
    let room = a
        .mutate_raw(
            r#"mutate mut {
                sys.Room{
                    admin: [{ verif_key:$user_id }]
                    authorisations:[{
                        name:"admin"
                        rights:[{
                            entity:"Person"
                            mutate_self:true
                            mutate_all:true
                        }]
                        users: [{ verif_key:$user_id }]
                    }]
                }
            }"#,
            Some(param),
        )
        .await
        .unwrap();
    let room_id = room.mutate_entities[0].node_to_mutate.id;

    let node = a.get_room_node(room_id).await.unwrap().unwrap();
    //serialize and deserialize to get rid of the local_id, as the network does
    let ser = bincode::serialize(&node).unwrap();
    let node: RoomNode = bincode::deserialize(&ser).unwrap();
    b.add_room_node(node).await.unwrap();
    room_id
}

/// reads the full rows as the synchronisation does (Query::Nodes -> get_nodes), and pass them through the wire format
async fn read_nodes(app: &GraphDatabaseService, room_id: Uid, ids: Vec<Uid>) -> Vec<Node> {
    let mut recv = app.get_nodes(room_id, ids).await;
    let mut res = Vec::new();
    while let Some(nodes) = recv.recv().await {
        for node in nodes.unwrap() {
            let ser = bincode::serialize(&node).unwrap();
            let node: Node = bincode::deserialize(&ser).unwrap();
            res.push(node);
        }
    }
    res
}

/// same steps as LocalPeerService::synchronise_day for the node insertion:
/// Node::verify, filter_existing_node({id,mdate,signature}), nti.node = Some(node), add_nodes(room, ntis)
/// returns the rejected ids
async fn push_nodes(b: &GraphDatabaseService, room_id: Uid, nodes: Vec<Node>) -> Vec<Uid> {
    let mut ids = HashSet::new();
    for node in &nodes {
        node.verify().expect("signature of the pushed row is valid");
        ids.insert(NodeIdentifier {
            id: node.id,
            mdate: node.mdate,
            signature: node._signature.clone(),
        });
    }
    let filtered = b.filter_existing_node(ids).await.unwrap();
    assert_eq!(
        filtered.len(),
        nodes.len(),
        "set-up: every pushed row is new (or newer) for the receiver"
    );
    let mut to_insert = Vec::new();
    for mut nti in filtered {
        let mut node = nodes.iter().find(|n| n.id == nti.id).unwrap().clone();
        node._local_id = nti.old_local_id;
        nti.node = Some(node);
        to_insert.push(nti);
    }
    b.add_nodes(room_id, to_insert).await.unwrap()
}

fn json_of(node: &Node) -> serde_json::Map<String, serde_json::Value> {
    let v: serde_json::Value = serde_json::from_str(node._json.as_ref().unwrap()).unwrap();
    v.as_object().unwrap().clone()
}

fn key_of(
    json: &serde_json::Map<String, serde_json::Value>,
    value: &serde_json::Value,
) -> String {
    json.iter()
        .find(|e| e.1 == value)
        .expect("value exists in json")
        .0
        .clone()
}

async fn create_person(a: &GraphDatabaseService, room_id: &Uid, fields: &str) -> Uid {
    let mut param = Parameters::default();
    param.add("room_id", base64_encode(room_id)).unwrap();
    let q = format!(
        "mutate mut {{ Person{{ room_id:$room_id {} }} }}",
        fields
    );
    let res = a.mutate_raw(&q, Some(param)).await.unwrap();
    res.mutate_entities[0].node_to_mutate.id
}

#[tokio::test(flavor = "multi_thread")]
async fn f35_explicit_null_on_a_nullable_field_is_accepted_from_a_peer() {
    init_database_path();
    let (a, a_key, a_signing) = start().await;
    let (b, _b_key, _) = start().await;
    let room_id = create_and_share_room(&a, &a_key, &b).await;

    // ---- control 1: the Person with only 'name' is accepted by B
    let p1 = create_person(&a, &room_id, r#"name:"alice""#).await;
    let nodes = read_nodes(&a, room_id, vec![p1]).await;
    assert_eq!(1, nodes.len());
    println!("f35: p1 before nulls _json = {}", nodes[0]._json.clone().unwrap());
    let rejected = push_nodes(&b, room_id, nodes).await;
    assert!(
        rejected.is_empty(),
        "control: the Person before the nulls were set is accepted by B"
    );
    let res = b
        .query("query q { Person(order_by(name asc)){ name } }", None)
        .await
        .unwrap();
    assert_eq!(res, "{\n\"Person\":[{\"name\":\"alice\"}]\n}");

    // ---- A sets every nullable scalar field explicitly to null: literals, and one through a null parameter
    let mut param = Parameters::default();
    param.add("id", base64_encode(&p1)).unwrap();
    param.add_null("nick").unwrap();
    a.mutate_raw(
        r#"mutate mut {
            Person{
                id:$id
                nickname:$nick
                age:null
                score:null
                ok:null
                bin:null
            }
        }"#,
        Some(param),
    )
    .await
    .expect("the local mutation path accepts null on nullable fields");

    let nodes = read_nodes(&a, room_id, vec![p1]).await;
    assert_eq!(1, nodes.len());
    let stored = nodes[0]._json.clone().unwrap();
    println!("f35: p1 after nulls  _json = {}", stored);
    let json = json_of(&nodes[0]);
    let nulls = json.values().filter(|v| v.is_null()).count();
    assert_eq!(
        5, nulls,
        "control: the local mutation path stores explicit JSON nulls (nickname, age, score, ok, bin): {}",
        stored
    );

    // ---- the property: B must accept this row
    let rejected = push_nodes(&b, room_id, nodes).await;
    let null_row_rejected = !rejected.is_empty();
    println!("f35: rejected list for the row with explicit nulls: {} id(s)", rejected.len());
    let b_json_after = read_nodes(&b, room_id, vec![p1]).await[0]._json.clone().unwrap();
    println!("f35: B holds p1 _json = {}", b_json_after);

    // a second writer: Person created (not updated) with a null parameter
    let mut param = Parameters::default();
    param.add("room_id", base64_encode(&room_id)).unwrap();
    param.add_null("nick").unwrap();
    let res = a
        .mutate_raw(
            r#"mutate mut { Person{ room_id:$room_id name:"bob" nickname:$nick } }"#,
            Some(param),
        )
        .await
        .unwrap();
    let p2 = res.mutate_entities[0].node_to_mutate.id;
    let nodes = read_nodes(&a, room_id, vec![p2]).await;
    println!("f35: p2 created with null parameter _json = {}", nodes[0]._json.clone().unwrap());
    let created_has_null = json_of(&nodes[0]).values().any(|v| v.is_null());
    let rejected = push_nodes(&b, room_id, nodes).await;
    let created_null_row_rejected = !rejected.is_empty();
    println!(
        "f35: p2 explicit null stored: {}, rejected by B: {}",
        created_has_null, created_null_row_rejected
    );

    // ---- control 2: re-signing a modified row with A's key is sound: a correctly typed change is accepted
    let p3 = create_person(&a, &room_id, r#"name:"carol" nickname:"nick""#).await;
    let original = read_nodes(&a, room_id, vec![p3]).await.remove(0);
    let json = json_of(&original);
    let name_key = key_of(&json, &serde_json::Value::String("carol".to_string()));
    let nick_key = key_of(&json, &serde_json::Value::String("nick".to_string()));

    let mut forged = original.clone();
    let mut j = json.clone();
    j.insert(nick_key.clone(), serde_json::Value::String("other".to_string()));
    forged._json = Some(serde_json::to_string(&j).unwrap());
    forged.sign(&a_signing).unwrap();
    assert_eq!(forged.verifying_key, a_key, "set-up: derived signing key is A's key");
    let rejected = push_nodes(&b, room_id, vec![forged]).await;
    assert!(
        rejected.is_empty(),
        "control: a re-signed row with a correctly typed nickname is accepted"
    );

    // ---- control 3: a non-null wrong-typed value is refused
    let p4 = create_person(&a, &room_id, r#"name:"dave" nickname:"nick""#).await;
    let original = read_nodes(&a, room_id, vec![p4]).await.remove(0);
    let mut forged = original.clone();
    let mut j = json_of(&original);
    j.insert(nick_key.clone(), serde_json::Value::from(12));
    forged._json = Some(serde_json::to_string(&j).unwrap());
    forged.sign(&a_signing).unwrap();
    let rejected = push_nodes(&b, room_id, vec![forged]).await;
    assert_eq!(
        rejected,
        vec![p4],
        "control: a wrong-typed value (nickname: 12) is refused"
    );

    // ---- control 4: explicit null on the NOT nullable 'name' is refused
    let p5 = create_person(&a, &room_id, r#"name:"erin""#).await;
    let original = read_nodes(&a, room_id, vec![p5]).await.remove(0);
    let mut forged = original.clone();
    let mut j = json_of(&original);
    j.insert(name_key.clone(), serde_json::Value::Null);
    forged._json = Some(serde_json::to_string(&j).unwrap());
    forged.sign(&a_signing).unwrap();
    let rejected = push_nodes(&b, room_id, vec![forged]).await;
    assert_eq!(
        rejected,
        vec![p5],
        "control: explicit null on the not nullable field 'name' is refused"
    );

    // ---- control 5: the local mutation path refuses null on the not nullable 'name'
    let mut param = Parameters::default();
    param.add("id", base64_encode(&p5)).unwrap();
    a.mutate_raw(r#"mutate mut { Person{ id:$id name:null } }"#, Some(param))
        .await
        .expect_err("control: null on a not nullable field is refused locally");

    // ---- verdict
    assert!(
        !null_row_rejected,
        "C02 violated: a row written by the local mutation path is refused by the receiving path: explicit null on a nullable field (stored _json on A: {}, B still holds: {})",
        stored, b_json_after
    );
    assert!(
        !(created_has_null && created_null_row_rejected),
        "C02 violated: a row created by the local mutation path with a null parameter is refused by the receiving path"
    );
    assert_eq!(b_json_after, stored, "B holds the version with the nulls");
    let res = b
        .query(
            "query q { Person(order_by(name asc)){ name nickname age } }",
            None,
        )
        .await
        .unwrap();
    println!("f35: B query = {}", res);
    assert!(
        res.contains("\"name\":\"alice\"") && res.contains("\"name\":\"bob\""),
        "C02 violated: B's query does not return the Persons written with explicit nulls: {}",
        res
    );
}

/// Json typed field: what does the local mutation path do with `data: null`, and does the receiving
/// path accept an explicit null on the nullable Json field
#[tokio::test(flavor = "multi_thread")]
async fn f35_json_field_explicit_null() {
    init_database_path();
    let (a, a_key, a_signing) = start().await;
    let (b, _b_key, _) = start().await;
    let room_id = create_and_share_room(&a, &a_key, &b).await;

    let p1 = create_person(&a, &room_id, r#"name:"alice" data:"{\"k\":1}""#).await;
    let original = read_nodes(&a, room_id, vec![p1]).await.remove(0);
    println!("f35/json: p1 _json = {}", original._json.clone().unwrap());
    let json = json_of(&original);
    let data_key = json
        .iter()
        .find(|e| e.1.is_object())
        .expect("data is stored as an object")
        .0
        .clone();
    let rejected = push_nodes(&b, room_id, vec![original.clone()]).await;
    assert!(rejected.is_empty(), "control: Person with a json value is accepted");

    //local mutation: data:null
    let mut param = Parameters::default();
    param.add("id", base64_encode(&p1)).unwrap();
    let local = tokio::time::timeout(
        Duration::from_secs(30),
        a.mutate_raw(r#"mutate mut { Person{ id:$id data:null } }"#, Some(param)),
    )
    .await;
    let locally_written_null = match local {
        Err(_) => {
            println!("f35/json: local mutation 'data:null' timed out");
            false
        }
        Ok(Err(e)) => {
            println!("f35/json: local mutation 'data:null' returns Err: {}", e);
            false
        }
        Ok(Ok(_)) => {
            let n = read_nodes(&a, room_id, vec![p1]).await.remove(0);
            println!(
                "f35/json: local mutation 'data:null' Ok, stored _json = {}",
                n._json.clone().unwrap()
            );
            json_of(&n).get(&data_key).map(|v| v.is_null()).unwrap_or(false)
        }
    };
    println!(
        "f35/json: the local mutation path can write an explicit null on a Json field: {}",
        locally_written_null
    );

    //receiving side: explicit null on the nullable Json field, forged and re-signed with A's key
    let mut forged = original.clone();
    let mut j = json.clone();
    j.insert(data_key.clone(), serde_json::Value::Null);
    forged._json = Some(serde_json::to_string(&j).unwrap());
    forged.mdate += 1;
    forged.sign(&a_signing).unwrap();
    let rejected = push_nodes(&b, room_id, vec![forged]).await;
    println!(
        "f35/json: row with explicit null on the nullable Json field rejected by B: {}",
        !rejected.is_empty()
    );
    if locally_written_null {
        let n = read_nodes(&a, room_id, vec![p1]).await;
        let rejected_local = push_nodes(&b, room_id, n).await;
        assert!(
            rejected_local.is_empty(),
            "C02 violated: a row written by the local mutation path is refused by the receiving path: explicit null on a nullable Json field"
        );
    }
    assert!(
        rejected.is_empty(),
        "C02 violated (receiving side only, no local writer unless stated above): explicit null on a nullable Json field is refused while an absent one is accepted"
    );
}
