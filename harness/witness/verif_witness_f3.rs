//! Witness for F3 / F3': the room definition is append only; a user is disabled (or a right replaced)
//! by appending a NEWER entry for the same key. `Room::add_admin_user`, `Authorisation::add_user`,
//! `add_user_admin`, `add_right` refuse an entry that is older than the last one of the same key,
//! they must be fed in ASCENDING date order.
//!  - F3 : `RoomAuthorisations::LOAD_QUERY` (startup reload) orders the lists by `mdate desc`
//!  - F3': `RoomNode::read` / `AuthorisationNode::read` (room export used by the synchronisation) sort by `cdate` descending
//!
//! Specification: an instance can always be restarted on its own data, and a room exported by one peer
//! can be imported by a peer that does not know it, with the same authorisation decisions.

use std::{collections::HashSet, fs, path::PathBuf, time::Duration};

use tokio::sync::oneshot;

use crate::{
    configuration::Configuration,
    database::{
        authorisation_service::AuthorisationMessage,
        graph_database::GraphDatabaseService,
        query_language::parameter::{Parameters, ParametersAdd},
        room_node::RoomNode,
    },
    event_service::EventService,
    security::{base64_decode, base64_encode, random32, Uid},
};

const DATA_PATH: &str = "test_data/database/verif_witness_f3/";
fn init_database_path() {
    let path: PathBuf = DATA_PATH.into();
    fs::create_dir_all(&path).unwrap();
}

const OTHER_USER: &str = "cAH9ZO7FMgNhdaEpVLQbmQMb8gI-92d-b6wtTQbSLsw";

async fn rooms_for_peer(app: &GraphDatabaseService, key: &[u8], date: i64) -> HashSet<Uid> {
    let (reply, receive) = oneshot::channel::<HashSet<Uid>>();
    app.auth
        .send(AuthorisationMessage::RoomsForPeer(
            key.to_vec(),
            date,
            reply,
        ))
        .await
        .unwrap();
    receive.await.unwrap()
}

async fn start(
    data_model: &str,
    secret: &[u8; 32],
) -> crate::database::Result<(GraphDatabaseService, Vec<u8>, Uid)> {
    let path: PathBuf = DATA_PATH.into();
    GraphDatabaseService::start(
        "witness f3",
        data_model,
        secret,
        &random32(),
        path,
        &Configuration::default(),
        EventService::new(),
    )
    .await
}

///
/// creates a room with an authorisation containing OTHER_USER, then disable OTHER_USER at a later date
/// returns (room_id, auth_id, enable_date, disable_date)
///
async fn room_with_disabled_user(
    app: &GraphDatabaseService,
    verifying_key: &[u8],
) -> (Uid, Uid, i64, i64) {
    let mut param = Parameters::default();
    param
        .add("user_id", base64_encode(verifying_key))
        .unwrap();
    param.add("other", OTHER_USER.to_string()).unwrap();
    let room = app
        .mutate_raw(
            r#"mutate {
                sys.Room{
                    admin: [{
                        verif_key:$user_id
                    }]
                    authorisations:[{
                        name:"admin"
                        rights:[{
                            entity:"Person"
                            mutate_self:true
                            mutate_all:true
                        }]
                        users: [{
                            verif_key:$other
                        }]
                    }]
                }
            }"#,
            Some(param),
        )
        .await
        .unwrap();
    let enable_date = room.date;
    let room_insert = &room.mutate_entities[0];
    let room_id = room_insert.node_to_mutate.id;
    let auth_insert = &room_insert.sub_nodes.get("authorisations").unwrap()[0];
    let auth_id = auth_insert.node_to_mutate.id;

    tokio::time::sleep(Duration::from_millis(20)).await;

    let mut param = Parameters::default();
    param.add("room_id", base64_encode(&room_id)).unwrap();
    param.add("auth_id", base64_encode(&auth_id)).unwrap();
    param.add("other", OTHER_USER.to_string()).unwrap();
    let disable = app
        .mutate_raw(
            r#"mutate {
                sys.Room{
                    id:$room_id
                    authorisations:[{
                        id:$auth_id
                        users: [{
                            verif_key:$other
                            enabled:false
                        }]
                    }]
                }
            }"#,
            Some(param),
        )
        .await
        .expect("the admin can disable another user");
    let disable_date = disable.date;
    assert!(disable_date > enable_date);
    (room_id, auth_id, enable_date, disable_date)
}

#[tokio::test(flavor = "multi_thread")]
async fn f3_restart_after_a_user_was_disabled() {
    init_database_path();
    let data_model = "{Person{ name:String }}";
    let secret = random32();
    let other = base64_decode(OTHER_USER.as_bytes()).unwrap();

    let (room_id, enable_date, disable_date) = {
        let (app, verifying_key, _) = start(data_model, &secret).await.unwrap();
        let (room_id, _, enable_date, disable_date) =
            room_with_disabled_user(&app, &verifying_key).await;

        //live decisions
        assert!(rooms_for_peer(&app, &other, enable_date)
            .await
            .contains(&room_id));
        assert!(!rooms_for_peer(&app, &other, disable_date)
            .await
            .contains(&room_id));
        (room_id, enable_date, disable_date)
    };

    let restarted = start(data_model, &secret).await;
    assert!(
        restarted.is_ok(),
        "F3: the instance cannot be restarted on its own data after a user was disabled: {}",
        restarted.err().unwrap()
    );
    let (app, _, _) = restarted.unwrap();
    assert!(
        rooms_for_peer(&app, &other, enable_date)
            .await
            .contains(&room_id),
        "after restart: the user is enabled at the first date"
    );
    assert!(
        !rooms_for_peer(&app, &other, disable_date)
            .await
            .contains(&room_id),
        "after restart: the user is disabled at the later date"
    );
}

#[tokio::test(flavor = "multi_thread")]
async fn f3_restart_after_a_right_was_replaced() {
    init_database_path();
    let data_model = "{Person{ name:String }}";
    let secret = random32();

    let room_id = {
        let (app, verifying_key, _) = start(data_model, &secret).await.unwrap();
        let mut param = Parameters::default();
        param
            .add("user_id", base64_encode(&verifying_key))
            .unwrap();
        let room = app
            .mutate_raw(
                r#"mutate {
                    sys.Room{
                        admin: [{
                            verif_key:$user_id
                        }]
                        authorisations:[{
                            name:"admin"
                            rights:[{
                                entity:"Person"
                                mutate_self:true
                                mutate_all:true
                            }]
                        }]
                    }
                }"#,
                Some(param),
            )
            .await
            .unwrap();
        let room_insert = &room.mutate_entities[0];
        let room_id = base64_encode(&room_insert.node_to_mutate.id);
        let auth_insert = &room_insert.sub_nodes.get("authorisations").unwrap()[0];
        let auth_id = base64_encode(&auth_insert.node_to_mutate.id);

        tokio::time::sleep(Duration::from_millis(20)).await;

        let mut param = Parameters::default();
        param.add("room_id", room_id.clone()).unwrap();
        param.add("auth_id", auth_id.clone()).unwrap();
        app.mutate_raw(
            r#"mutate {
                sys.Room{
                    id:$room_id
                    authorisations:[{
                        id:$auth_id
                        rights:[{
                            entity:"Person"
                            mutate_self:false
                            mutate_all:false
                        }]
                    }]
                }
            }"#,
            Some(param),
        )
        .await
        .expect("remove all rights");

        let mut param = Parameters::default();
        param.add("room_id", room_id.clone()).unwrap();
        app.mutate_raw(
            r#"mutate { Person{ room_id: $room_id name: "me" } }"#,
            Some(param),
        )
        .await
        .expect_err("live: authorisation to insert has been removed");
        room_id
    };

    let restarted = start(data_model, &secret).await;
    assert!(
        restarted.is_ok(),
        "F3: the instance cannot be restarted on its own data after a right was replaced: {}",
        restarted.err().unwrap()
    );
    let (app, _, _) = restarted.unwrap();
    let mut param = Parameters::default();
    param.add("room_id", room_id.clone()).unwrap();
    app.mutate_raw(
        r#"mutate { Person{ room_id: $room_id name: "me" } }"#,
        Some(param),
    )
    .await
    .expect_err("after restart: authorisation to insert is still removed");
}

#[tokio::test(flavor = "multi_thread")]
async fn f3_restart_after_an_admin_entry_was_appended() {
    init_database_path();
    let data_model = "{Person{ name:String }}";
    let secret = random32();

    {
        let (app, verifying_key, _) = start(data_model, &secret).await.unwrap();
        let mut param = Parameters::default();
        param
            .add("user_id", base64_encode(&verifying_key))
            .unwrap();
        let room = app
            .mutate_raw(
                r#"mutate {
                    sys.Room{
                        admin: [{
                            verif_key:$user_id
                        }]
                        authorisations:[{
                            name:"admin"
                        }]
                    }
                }"#,
                Some(param),
            )
            .await
            .unwrap();
        let room_id = base64_encode(&room.mutate_entities[0].node_to_mutate.id);

        tokio::time::sleep(Duration::from_millis(20)).await;

        let mut param = Parameters::default();
        param.add("room_id", room_id.clone()).unwrap();
        param
            .add("user_id", base64_encode(&verifying_key))
            .unwrap();
        app.mutate_raw(
            r#"mutate {
                sys.Room{
                    id:$room_id
                    admin: [{
                        verif_key:$user_id
                        enabled:true
                    }]
                }
            }"#,
            Some(param),
        )
        .await
        .expect("an admin can append a new admin entry");
    }

    let restarted = start(data_model, &secret).await;
    assert!(
        restarted.is_ok(),
        "F3: the instance cannot be restarted on its own data after a second admin entry for the same key: {}",
        restarted.err().unwrap()
    );
}

///
/// F3': export the room from the first instance and import it in a second instance that does not know the room
///
#[tokio::test(flavor = "multi_thread")]
async fn f3prime_room_with_disabled_user_can_be_imported_by_a_new_peer() {
    init_database_path();
    let data_model = "{Person{ name:String }}";
    let other = base64_decode(OTHER_USER.as_bytes()).unwrap();

    let (first_app, verifying_key, _) = start(data_model, &random32()).await.unwrap();
    let (second_app, _, _) = start(data_model, &random32()).await.unwrap();

    let (room_id, _, enable_date, disable_date) =
        room_with_disabled_user(&first_app, &verifying_key).await;

    let node = first_app.get_room_node(room_id).await.unwrap().unwrap();
    //serialize and deserialize to get rid of the local_id
    let ser = bincode::serialize(&node).unwrap();
    let node: RoomNode = bincode::deserialize(&ser).unwrap();

    let imported = second_app.add_room_node(node.clone()).await;
    assert!(
        imported.is_ok(),
        "F3': the exported room cannot be imported by a new peer: {}",
        imported.err().unwrap()
    );

    let parsed = node.parse();
    assert!(
        parsed.is_ok(),
        "F3': the exported RoomNode cannot be parsed: {}",
        parsed.err().unwrap()
    );

    assert!(rooms_for_peer(&second_app, &other, enable_date)
        .await
        .contains(&room_id));
    assert!(!rooms_for_peer(&second_app, &other, disable_date)
        .await
        .contains(&room_id));
}
