//
// Witness for property C11:
//   "Once a peer has applied a valid deletion of a row, that row, at the deleted or any older version,
//    never becomes visible again on that peer, whatever it later receives from peers that have not yet seen the deletion."
//
// Two real GraphDatabaseService instances (two devices of the same user: same key material, different data folders)
// are wired back to back without network:
//  - the pulling side runs the real LocalPeerService::synchronise_room with a real QueryService
//  - the serving side runs the real InboundQueryService::process_inbound for every QueryProtocol that comes out
//
use std::{
    collections::HashSet,
    fs,
    path::PathBuf,
    sync::{atomic::AtomicBool, Arc},
    time::Duration,
};

use tokio::sync::{mpsc, Mutex};

use crate::{
    configuration::Configuration,
    database::{
        daily_log::DailyLog,
        graph_database::GraphDatabaseService,
        node::{Node, NodeDeletionEntry},
        query_language::parameter::{Parameters, ParametersAdd},
    },
    date_utils::now,
    discret::DiscretServices,
    event_service::EventService,
    peer_connection_service::{PeerConnectionMessage, PeerConnectionService},
    security::{base64_encode, new_uid, random32, HardwareFingerprint, Uid},
    signature_verification_service::SignatureVerificationService,
    synchronisation::{
        peer_outbound_service::{InboundQueryService, RemotePeerHandle},
        Answer, QueryProtocol,
    },
};

use super::{LocalPeerService, QueryService};

const DATA_PATH: &str = "test_data/synchronisation/verif_witness_c11/";
const DATA_MODEL: &str = "{Person{ name:String }}";
const APP_KEY: &str = "verif witness c11";

struct Device {
    name: &'static str,
    services: DiscretServices,
    verifying_key: Vec<u8>,
}

async fn start_device(name: &'static str, key_material: &[u8; 32], run_id: &str) -> Device {
    //same key material on both devices => same user, same database file name: each device needs its own folder
    let path: PathBuf = format!("{}{}/{}/", DATA_PATH, run_id, name).into();
    fs::create_dir_all(&path).unwrap();
    let events = EventService::new();
    let (database, verifying_key, _) = GraphDatabaseService::start(
        APP_KEY,
        DATA_MODEL,
        key_material,
        &random32(),
        path,
        &Configuration::default(),
        events.clone(),
    )
    .await
    .unwrap();

    Device {
        name,
        services: DiscretServices {
            events,
            database,
            signature_verification: SignatureVerificationService::start(1),
        },
        verifying_key,
    }
}

///
/// `puller` synchronises `room_id` from `server`:
/// real LocalPeerService::synchronise_room on one side, real InboundQueryService::process_inbound on the other,
/// connected by in-memory channels.
///
async fn pull(puller: &Device, server: &Device, room_id: Uid) {
    let (query_sender, mut query_receiver) = mpsc::channel::<QueryProtocol>(16);
    let (answer_sender, answer_receiver) = mpsc::channel::<Answer>(16);

    let query_service = QueryService::start(query_sender, answer_receiver);

    let mut allowed_room = HashSet::new();
    allowed_room.insert(room_id);
    let mut handle = RemotePeerHandle {
        allowed_room,
        db: server.services.database.clone(),
        verifying_key: server.verifying_key.clone(),
        reply: answer_sender,
    };
    //the key of the peer that sends the queries, as the serving side knows it once the connection is initialised
    let remote_key = Arc::new(Mutex::new(puller.verifying_key.clone()));
    let conn_ready = Arc::new(AtomicBool::new(true));
    let fingerprint = HardwareFingerprint {
        id: new_uid(),
        name: "verif".to_string(),
    };

    let server_task = tokio::spawn(async move {
        let mut served = 0;
        while let Some(msg) = query_receiver.recv().await {
            InboundQueryService::process_inbound(
                msg,
                &mut handle,
                &remote_key,
                &conn_ready,
                &fingerprint,
            )
            .await
            .expect("the serving side answers every query");
            served += 1;
        }
        served
    });

    //synchronise_room only notifies the peer service of the sys.Peer nodes it received: drain the messages
    let (peer_sender, mut peer_receiver) = mpsc::channel::<PeerConnectionMessage>(32);
    tokio::spawn(async move { while peer_receiver.recv().await.is_some() {} });
    let peer_service = PeerConnectionService {
        sender: peer_sender,
    };

    let res =
        LocalPeerService::synchronise_room(room_id, &query_service, peer_service, &puller.services)
            .await;
    if let Err(e) = &res {
        panic!(
            "{} pulling from {}: synchronise_room failed: {}",
            puller.name, server.name, e
        );
    }

    //closes the query channel, which ends the serving task
    drop(query_service);
    let served = tokio::time::timeout(Duration::from_secs(10), server_task)
        .await
        .expect("serving task ends when the query service is dropped")
        .unwrap();
    assert!(served > 0);

    //synchronise_room asks for a daily log computation when it wrote something: wait until it is done
    wait_daily_log(&puller.services.database, room_id).await;
}

///
/// bounded wait until every daily log of the room is computed
///
async fn wait_daily_log(db: &GraphDatabaseService, room_id: Uid) -> Vec<DailyLog> {
    for _ in 0..1000 {
        let mut recv = db.get_room_log(room_id).await;
        let mut logs: Vec<DailyLog> = Vec::new();
        while let Some(l) = recv.recv().await {
            logs.append(&mut l.unwrap());
        }
        if !logs.is_empty() && logs.iter().all(|l| !l.need_recompute) {
            return logs;
        }
        //in case the computation request was consumed before the write: ask again, it is idempotent
        db.compute_daily_log().await;
        tokio::time::sleep(Duration::from_millis(10)).await;
    }
    panic!("daily log not computed after 10s");
}

/// what the public query API returns
async fn persons(dev: &Device) -> String {
    dev.services
        .database
        .query("query q { Person(order_by(name asc)){ name } }", None)
        .await
        .unwrap()
}

/// what is stored in the _node table for this id in this room
async fn stored_nodes(dev: &Device, room_id: Uid, id: Uid) -> Vec<Node> {
    let mut recv = dev.services.database.get_nodes(room_id, vec![id]).await;
    let mut res = Vec::new();
    while let Some(n) = recv.recv().await {
        res.append(&mut n.unwrap());
    }
    res
}

async fn deletion_log(dev: &Device, room_id: Uid, entity: &str) -> Vec<NodeDeletionEntry> {
    let mut recv = dev
        .services
        .database
        .get_room_node_deletion_log(room_id, entity.to_string(), now())
        .await;
    let mut res = Vec::new();
    while let Some(n) = recv.recv().await {
        res.append(&mut n.unwrap());
    }
    res
}

const WITH_P: &str = "{\n\"Person\":[{\"name\":\"Alice\"}]\n}";
const WITHOUT_P: &str = "{\n\"Person\":[]\n}";

#[tokio::test(flavor = "multi_thread")]
async fn c11_deleted_row_comes_back_from_a_lagging_peer() {
    scenario(true).await;
}

///
/// same scenario, but the state is only asserted after the complete exchange (step 4):
/// shows whether the return of the deleted row is transient or permanent
///
#[tokio::test(flavor = "multi_thread")]
async fn c11_deleted_row_state_after_full_exchange() {
    scenario(false).await;
}

async fn scenario(assert_at_step_3: bool) {
    let run_id = base64_encode(&new_uid());
    let key_material = random32();
    let a = start_device("A", &key_material, &run_id).await;
    let b = start_device("B", &key_material, &run_id).await;
    assert_eq!(a.verifying_key, b.verifying_key, "same user on both devices");

    //
    // 1. A creates the room and a Person P in it, B pulls the room from A
    //
    let mut param = Parameters::default();
    param
        .add("user_id", base64_encode(&a.verifying_key))
        .unwrap();
    let room = a
        .services
        .database
        .mutate_raw(
            r#"mutate mut {
                sys.Room{
                    admin: [{
                        verif_key:$user_id
                    }]
                    authorisations:[{
                        name:"admin"
                        rights:[{
                            entity:"Person"
                            mutate_self:true
                            mutate_all:true
                        }]
                        users: [{
                            verif_key:$user_id
                        }]
                    }]
                }
            }"#,
            Some(param),
        )
        .await
        .unwrap();
    let room_id: Uid = room.mutate_entities[0].node_to_mutate.id;

    let mut param = Parameters::default();
    param.add("room_id", base64_encode(&room_id)).unwrap();
    let mutation = a
        .services
        .database
        .mutate_raw(
            r#"mutate mut {
                P: Person{
                    room_id: $room_id
                    name: "Alice"
                }
            }"#,
            Some(param),
        )
        .await
        .unwrap();
    let p_id: Uid = mutation.mutate_entities[0].node_to_mutate.id;

    let logs = wait_daily_log(&a.services.database, room_id).await;
    assert_eq!(1, logs.len());
    let entity = logs[0].entity.clone();

    let p_on_a = stored_nodes(&a, room_id, p_id).await;
    assert_eq!(1, p_on_a.len());
    let p_mdate = p_on_a[0].mdate;

    pull(&b, &a, room_id).await;

    assert_eq!(WITH_P, persons(&a).await, "control: A returns P");
    assert_eq!(WITH_P, persons(&b).await, "control: B returns P after pulling from A");
    assert_eq!(1, stored_nodes(&b, room_id, p_id).await.len());

    //
    // 2. A deletes P
    //
    let mut param = Parameters::default();
    param.add("id", base64_encode(&p_id)).unwrap();
    a.services
        .database
        .delete("delete delete_person { Person { $id } }", Some(param))
        .await
        .unwrap();
    wait_daily_log(&a.services.database, room_id).await;

    assert_eq!(WITHOUT_P, persons(&a).await, "control: A no longer returns P");
    assert!(stored_nodes(&a, room_id, p_id).await.is_empty());
    let del = deletion_log(&a, room_id, &entity).await;
    assert_eq!(1, del.len(), "control: A stores the deletion record of P");
    del[0].verify().unwrap();
    assert_eq!(p_id, del[0].id);
    assert_eq!(p_mdate, del[0].mdate);
    //B has not seen the deletion
    assert_eq!(WITH_P, persons(&b).await);
    assert!(deletion_log(&b, room_id, &entity).await.is_empty());

    //
    // 3. A pulls the room from B, which has not seen the deletion
    //
    pull(&a, &b, room_id).await;

    let del = deletion_log(&a, room_id, &entity).await;
    assert_eq!(1, del.len(), "A still stores the deletion record of P");
    let stored = stored_nodes(&a, room_id, p_id).await;
    println!(
        "after A pulled from lagging B: A stores {} version(s) of P (mdate {:?}, deleted mdate {}), A returns {}",
        stored.len(),
        stored.iter().map(|n| n.mdate).collect::<Vec<i64>>(),
        del[0].mdate,
        persons(&a).await.replace('\n', "")
    );
    if assert_at_step_3 {
        assert_eq!(
            WITHOUT_P,
            persons(&a).await,
            "C11 violated: a validly deleted row is visible again after pulling from a peer that had not seen the deletion"
        );
        assert!(
            stored.is_empty(),
            "C11 violated: the deleted version of P is stored again on A"
        );
    }

    //
    // 4. B pulls from A (and applies the deletion), then A pulls from B again
    //
    pull(&b, &a, room_id).await;
    pull(&a, &b, room_id).await;

    println!(
        "after the full exchange: A returns {} (stores {} version(s) of P, {} deletion record(s)), B returns {} (stores {} version(s) of P, {} deletion record(s))",
        persons(&a).await.replace('\n', ""),
        stored_nodes(&a, room_id, p_id).await.len(),
        deletion_log(&a, room_id, &entity).await.len(),
        persons(&b).await.replace('\n', ""),
        stored_nodes(&b, room_id, p_id).await.len(),
        deletion_log(&b, room_id, &entity).await.len(),
    );
    assert_eq!(1, deletion_log(&b, room_id, &entity).await.len());
    assert_eq!(
        WITHOUT_P,
        persons(&b).await,
        "C11 violated: B received the deletion record and still shows the deleted row"
    );
    assert_eq!(
        WITHOUT_P,
        persons(&a).await,
        "C11 violated: A shows a validly deleted row"
    );
    assert!(stored_nodes(&a, room_id, p_id).await.is_empty());
    assert!(stored_nodes(&b, room_id, p_id).await.is_empty());
}
