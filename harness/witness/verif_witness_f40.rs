//! Witness tests for property C17 (finding F40).
//!
//! C17: search(text) returns exactly the rows of the entity whose CURRENT text content contains the
//! searched text: after creations, updates, deletions and reuse of storage slots no stale text matches
//! and no current text is missed, for entities with full-text indexing enabled.
//!
//! The full text index is the contentless fts5 table `_node_fts`, keyed by the rowid of `_node`.
//! A deletion removes the `_node` row only. SQLite gives the highest rowid back to the next inserted
//! row once the row holding it is deleted (no AUTOINCREMENT), so the next row inherits the postings of
//! the deleted one.

use std::{collections::HashSet, fs, path::PathBuf};

use serde::Deserialize;
use tokio::sync::oneshot;

use crate::{
    configuration::Configuration,
    database::{
        graph_database::GraphDatabaseService,
        query_language::parameter::{Parameters, ParametersAdd},
        room_node::RoomNode,
        sqlite_database::Writeable,
    },
    date_utils::now,
    event_service::EventService,
    security::{base64_encode, random32, uid_decode, Uid},
    ResultParser,
};

const DATA_PATH: &str = "test_data/database/verif_witness_f40/";

#[derive(Deserialize, Debug)]
struct Named {
    name: String,
}

async fn start(data_model: &str) -> (GraphDatabaseService, String) {
    let path: PathBuf = DATA_PATH.into();
    fs::create_dir_all(&path).unwrap();
    let (app, verifying_key, _) = GraphDatabaseService::start(
        "verif witness f40",
        data_model,
        &random32(),
        &random32(),
        path,
        &Configuration::default(),
        EventService::new(),
    )
    .await
    .unwrap();
    (app, base64_encode(&verifying_key))
}

/// a room where `user_id` has every right on `entity`; returns the room id (base64)
async fn create_room(app: &GraphDatabaseService, user_id: &str, entities: &[&str]) -> String {
    let rights: Vec<String> = entities
        .iter()
        .map(|entity| {
            format!(
                r#"{{ entity:"{}" mutate_self:true mutate_all:true }}"#,
                entity
            )
        })
        .collect();
    let rights = rights.join(",");
    let mut param = Parameters::default();
    param.add("user_id", user_id.to_string()).unwrap();
    let room = app
        .mutate_raw(
            &format!(
                r#"mutate mut {{
                    sys.Room{{
                        admin: [{{ verif_key:$user_id }}]
                        authorisations:[{{
                            name:"admin"
                            rights:[{}]
                            users: [{{ verif_key:$user_id }}]
                        }}]
                    }}
                }}"#,
                rights
            ),
            Some(param),
        )
        .await
        .unwrap();
    base64_encode(&room.mutate_entities[0].node_to_mutate.id)
}

/// creates a row of `entity` with the given name in the room; returns (id base64, short entity name)
async fn create(
    app: &GraphDatabaseService,
    entity: &str,
    room_id: &str,
    name: &str,
) -> (String, String) {
    let mut param = Parameters::default();
    param.add("room_id", room_id.to_string()).unwrap();
    param.add("name", name.to_string()).unwrap();
    let res = app
        .mutate_raw(
            &format!(
                "mutate mut {{ P: {} {{ room_id: $room_id name: $name }} }}",
                entity
            ),
            Some(param),
        )
        .await
        .unwrap();
    let ntm = &res.mutate_entities[0].node_to_mutate;
    //the short name of the entity is the one stored in the row
    let short_name = ntm.node.as_ref().unwrap()._entity.clone();
    (base64_encode(&ntm.id), short_name)
}

/// names of the Person rows returned by search(text), sorted
async fn search(app: &GraphDatabaseService, text: &str) -> Vec<String> {
    let mut param = Parameters::default();
    param.add("text", text.to_string()).unwrap();
    let res = app
        .query(
            "query q { Person(search($text)) { name } }",
            Some(param),
        )
        .await
        .unwrap();
    let mut parser = ResultParser::new(&res).unwrap();
    let rows: Vec<Named> = parser.take_array("Person").unwrap();
    let mut names: Vec<String> = rows.into_iter().map(|r| r.name).collect();
    names.sort();
    names
}

/// names of all the Person rows, sorted
async fn all_persons(app: &GraphDatabaseService) -> Vec<String> {
    let res = app.query("query q { Person { name } }", None).await.unwrap();
    let mut parser = ResultParser::new(&res).unwrap();
    let rows: Vec<Named> = parser.take_array("Person").unwrap();
    let mut names: Vec<String> = rows.into_iter().map(|r| r.name).collect();
    names.sort();
    names
}

/// storage slot (rowid of `_node`) of the row with this id, if it is stored
async fn slot_of(app: &GraphDatabaseService, id: &str) -> Option<i64> {
    let id: Uid = uid_decode(id).unwrap();
    let (reply, receive) = oneshot::channel::<Option<i64>>();
    app.db
        .reader
        .send_async(Box::new(move |conn| {
            let mut stmt = conn
                .prepare("SELECT rowid FROM _node WHERE id = ?")
                .unwrap();
            let mut rows = stmt.query([id]).unwrap();
            let slot: Option<i64> = rows.next().unwrap().map(|row| row.get(0).unwrap());
            let _ = reply.send(slot);
        }))
        .await
        .unwrap();
    receive.await.unwrap()
}

/// fts5 structural check of the index: a 'delete' of a text that was never inserted breaks it.
/// The readers are query_only: the check goes through the writer.
struct IntegrityCheck;
impl Writeable for IntegrityCheck {
    fn write(&mut self, conn: &rusqlite::Connection) -> std::result::Result<(), rusqlite::Error> {
        conn.execute(
            "INSERT INTO _node_fts(_node_fts) VALUES('integrity-check')",
            [],
        )?;
        Ok(())
    }
}
async fn index_is_sound(app: &GraphDatabaseService) -> Result<(), String> {
    app.db
        .writer
        .write(Box::new(IntegrityCheck))
        .await
        .map(|_| ())
        .map_err(|e| e.to_string())
}

async fn delete(app: &GraphDatabaseService, entity: &str, id: &str) {
    let mut param = Parameters::default();
    param.add("id", id.to_string()).unwrap();
    app.delete(
        &format!("delete del {{ {} {{ $id }} }}", entity),
        Some(param),
    )
    .await
    .expect("the deletion is written");
}

#[tokio::test(flavor = "multi_thread")]
async fn f40_deleted_text_does_not_match_the_row_that_reuses_its_slot() {
    //full text indexing is on by default for an entity
    let (app, user_id) = start("{Person{ name:String }}").await;
    let room_id = create_room(&app, &user_id, &["Person"]).await;

    create(&app, "Person", &room_id, "alphaone").await;
    create(&app, "Person", &room_id, "betatwo").await;
    let (gamma_id, _) = create(&app, "Person", &room_id, "gammathree").await;

    //controls: the index works
    assert_eq!(vec!["alphaone"], search(&app, "alphaone").await);
    assert_eq!(vec!["betatwo"], search(&app, "betatwo").await);
    assert_eq!(vec!["gammathree"], search(&app, "gammathree").await);
    assert_eq!(vec!["gammathree"], search(&app, "mmath").await);
    assert!(search(&app, "deltafour").await.is_empty());
    let gamma_slot = slot_of(&app, &gamma_id).await.expect("gammathree is stored");

    delete(&app, "Person", &gamma_id).await;

    //controls: the row is gone, and the search does not return it (the join with _node finds no row)
    assert_eq!(vec!["alphaone", "betatwo"], all_persons(&app).await);
    assert!(slot_of(&app, &gamma_id).await.is_none());
    assert!(search(&app, "gammathree").await.is_empty());

    let (delta_id, _) = create(&app, "Person", &room_id, "deltafour").await;

    //control: the set-up does exercise the reuse of a storage slot
    assert_eq!(
        Some(gamma_slot),
        slot_of(&app, &delta_id).await,
        "set-up: the new row is expected to reuse the storage slot of the deleted row"
    );
    assert_eq!(
        vec!["alphaone", "betatwo", "deltafour"],
        all_persons(&app).await
    );

    let stale = search(&app, "gammathree").await;
    assert!(
        stale.is_empty(),
        "C17 violated: the text of a deleted row matches the row that reuses its storage slot: search(\"gammathree\") returns {:?}",
        stale
    );
    assert_eq!(
        vec!["deltafour"],
        search(&app, "deltafour").await,
        "C17 violated: the current text of the new row is missed"
    );
    assert_eq!(vec!["alphaone"], search(&app, "alphaone").await);
    assert_eq!(Ok(()), index_is_sound(&app).await);
}

/// what synchronise_day does for the rows of one entity and one day, without the network:
/// ids of the day on `from` -> filter_existing_node on `to` -> full rows from `from` -> signature check -> add_nodes on `to`
async fn synchronise_rows(
    from: &GraphDatabaseService,
    to: &GraphDatabaseService,
    room_id: Uid,
    entity: &str,
) -> usize {
    let mut remote_nodes = HashSet::new();
    let mut recv = from
        .get_room_daily_nodes(room_id, entity.to_string(), now())
        .await;
    while let Some(nodes) = recv.recv().await {
        for node in nodes.unwrap() {
            remote_nodes.insert(node);
        }
    }
    let filtered = to.filter_existing_node(remote_nodes).await.unwrap();
    if filtered.is_empty() {
        return 0;
    }
    let ids: Vec<Uid> = filtered.iter().map(|nti| nti.id).collect();
    let mut to_insert = Vec::new();
    let mut filtered = filtered;
    let mut recv = from.get_nodes(room_id, ids).await;
    while let Some(nodes) = recv.recv().await {
        for mut node in nodes.unwrap() {
            //the local id is not transmitted
            node._local_id = None;
            node.verify().unwrap();
            let pos = filtered.iter().position(|nti| nti.id == node.id).unwrap();
            let mut nti = filtered.swap_remove(pos);
            node._local_id = nti.old_local_id;
            nti.node = Some(node);
            to_insert.push(nti);
        }
    }
    let inserted = to_insert.len();
    let rejected = to.add_nodes(room_id, to_insert).await.unwrap();
    assert!(rejected.is_empty(), "set-up: the rows are accepted");
    inserted
}

/// what synchronise_day does for the deletion records of one entity and one day
async fn synchronise_node_deletions(
    from: &GraphDatabaseService,
    to: &GraphDatabaseService,
    room_id: Uid,
    entity: &str,
) -> usize {
    let mut count = 0;
    let mut recv = from
        .get_room_node_deletion_log(room_id, entity.to_string(), now())
        .await;
    while let Some(entries) = recv.recv().await {
        let entries = entries.unwrap();
        for entry in &entries {
            entry.verify().unwrap();
        }
        count += entries.len();
        to.delete_nodes(entries).await.unwrap();
    }
    count
}

#[tokio::test(flavor = "multi_thread")]
async fn f40_deletion_received_from_a_peer_removes_the_text_from_the_index() {
    let data_model = "{Person{ name:String }}";
    let (a, a_user) = start(data_model).await;
    let (b, _) = start(data_model).await;

    let room_id = create_room(&a, &a_user, &["Person"]).await;
    let room_uid = uid_decode(&room_id).unwrap();

    //B receives the room definition
    let node = a.get_room_node(room_uid).await.unwrap().unwrap();
    //serialize and deserialize to get rid of the local_id
    let ser = bincode::serialize(&node).unwrap();
    let node: RoomNode = bincode::deserialize(&ser).unwrap();
    b.add_room_node(node).await.unwrap();

    //the rows are transferred one at a time: the order of the storage slots on B is the creation order
    let (_, entity) = create(&a, "Person", &room_id, "alphaone").await;
    assert_eq!(1, synchronise_rows(&a, &b, room_uid, &entity).await);
    create(&a, "Person", &room_id, "betatwo").await;
    assert_eq!(1, synchronise_rows(&a, &b, room_uid, &entity).await);
    let (gamma_id, _) = create(&a, "Person", &room_id, "gammathree").await;
    assert_eq!(1, synchronise_rows(&a, &b, room_uid, &entity).await);
    assert_eq!(0, synchronise_rows(&a, &b, room_uid, &entity).await);

    //controls: the received rows are stored and indexed on B
    assert_eq!(
        vec!["alphaone", "betatwo", "gammathree"],
        all_persons(&b).await
    );
    assert_eq!(vec!["alphaone"], search(&b, "alphaone").await);
    assert_eq!(vec!["gammathree"], search(&b, "gammathree").await);
    let gamma_slot = slot_of(&b, &gamma_id).await.expect("gammathree is stored on B");

    //A deletes the last row, B receives the deletion record
    delete(&a, "Person", &gamma_id).await;
    assert_eq!(
        1,
        synchronise_node_deletions(&a, &b, room_uid, &entity).await
    );

    //controls: the row is gone on B
    assert_eq!(vec!["alphaone", "betatwo"], all_persons(&b).await);
    assert!(slot_of(&b, &gamma_id).await.is_none());
    assert!(search(&b, "gammathree").await.is_empty());

    //a new row from A
    let (delta_id, _) = create(&a, "Person", &room_id, "deltafour").await;
    assert_eq!(1, synchronise_rows(&a, &b, room_uid, &entity).await);

    //control: the set-up does exercise the reuse of a storage slot on B
    assert_eq!(
        Some(gamma_slot),
        slot_of(&b, &delta_id).await,
        "set-up: the new row is expected to reuse the storage slot of the deleted row on B"
    );
    assert_eq!(
        vec!["alphaone", "betatwo", "deltafour"],
        all_persons(&b).await
    );

    let stale = search(&b, "gammathree").await;
    assert!(
        stale.is_empty(),
        "C17 violated: on the peer that received the deletion, the text of the deleted row matches the row that reuses its storage slot: search(\"gammathree\") returns {:?}",
        stale
    );
    assert_eq!(
        vec!["deltafour"],
        search(&b, "deltafour").await,
        "C17 violated: the current text of the new row is missed on the peer"
    );
    assert_eq!(vec!["alphaone"], search(&b, "alphaone").await);
    assert_eq!(Ok(()), index_is_sound(&b).await);
}

///
/// Guard for the repair, expected to pass on the unmodified code:
/// the rows of an entity declared with no_full_text_index, and the rows without any text, are not in the index.
/// Removing from a contentless fts5 index a text that was never inserted corrupts it,
/// so deleting such rows, locally or from a peer's deletion record, must leave the index sound and the other rows searchable.
///
#[tokio::test(flavor = "multi_thread")]
async fn f40_deleting_rows_that_are_not_indexed_leaves_the_index_sound() {
    let data_model = "{
        Person{ name:String }
        Note(no_full_text_index){ name:String }
    }";
    let (a, a_user) = start(data_model).await;
    let (b, _) = start(data_model).await;
    let room_id = create_room(&a, &a_user, &["Person", "Note"]).await;
    let room_uid = uid_decode(&room_id).unwrap();

    let node = a.get_room_node(room_uid).await.unwrap().unwrap();
    let ser = bincode::serialize(&node).unwrap();
    let node: RoomNode = bincode::deserialize(&ser).unwrap();
    b.add_room_node(node).await.unwrap();

    let (_, person) = create(&a, "Person", &room_id, "alphaone").await;
    //the text that is not indexed is longer than all the indexed text:
    //fts5 reports the removal of more text than the index holds ('database disk image is malformed')
    let hidden = format!("alphaone hidden {}", "lorem ipsum dolor ".repeat(400));
    let (note_id, note) = create(&a, "Note", &room_id, &hidden).await;
    assert_eq!(1, synchronise_rows(&a, &b, room_uid, &person).await);
    assert_eq!(1, synchronise_rows(&a, &b, room_uid, &note).await);

    for app in [&a, &b] {
        assert_eq!(vec!["alphaone"], search(app, "alphaone").await);
        assert!(search(app, "hidden").await.is_empty());
    }

    delete(&a, "Note", &note_id).await;
    assert_eq!(1, synchronise_node_deletions(&a, &b, room_uid, &note).await);

    create(&a, "Person", &room_id, "hidden betatwo").await;
    assert_eq!(1, synchronise_rows(&a, &b, room_uid, &person).await);

    for app in [&a, &b] {
        assert!(slot_of(app, &note_id).await.is_none());
        assert_eq!(Ok(()), index_is_sound(app).await);
        assert_eq!(vec!["alphaone"], search(app, "alphaone").await);
        assert_eq!(vec!["hidden betatwo"], search(app, "hidden").await);
        assert_eq!(vec!["hidden betatwo"], search(app, "betatwo").await);
    }
}
