// Witness for F29 (property C01): one mutation query naming the SAME room twice.
//
// C01: writes are validated against the room's rights as they are; the in-memory
// authorisations must equal what is stored.
use std::{fs, path::PathBuf, time::Duration};

use crate::{
    configuration::Configuration,
    database::{
        graph_database::GraphDatabaseService,
        query_language::parameter::{Parameters, ParametersAdd},
    },
    event_service::EventService,
    security::{base64_encode, random32},
};

const DATA_PATH: &str = "test_data/database/verif_witness_f29/";
const DATA_MODEL: &str = "{Person{ name:String }}";
const BOB: &str = "cAH9ZO7FMgNhdaEpVLQbmQMb8gI-92d-b6wtTQbSLsw";

async fn start(secret: &[u8; 32]) -> (GraphDatabaseService, Vec<u8>) {
    let path: PathBuf = DATA_PATH.into();
    fs::create_dir_all(&path).unwrap();
    let (app, verifying_key, _) = GraphDatabaseService::start(
        "f29 app",
        DATA_MODEL,
        secret,
        &random32(),
        path,
        &Configuration::default(),
        EventService::new(),
    )
    .await
    .unwrap();
    (app, verifying_key)
}

// room R, admin = me, one group granting me Person mutate_self / mutate_all
async fn create_room(app: &GraphDatabaseService, verifying_key: &Vec<u8>) -> (String, String) {
    let mut param = Parameters::default();
    param.add("user_id", base64_encode(verifying_key)).unwrap();
    let room = app
        .mutate_raw(
            r#"mutate {
                sys.Room{
                    admin: [{ verif_key:$user_id }]
                    authorisations:[{
                        name:"grp"
                        rights:[{ entity:"Person" mutate_self:true mutate_all:true }]
                        users:[{ verif_key:$user_id }]
                    }]
                }
            }"#,
            Some(param),
        )
        .await
        .expect("control: room creation");
    let room_insert = &room.mutate_entities[0];
    let room_id = base64_encode(&room_insert.node_to_mutate.id);
    let auth_insert = &room_insert.sub_nodes.get("authorisations").unwrap()[0];
    let auth_id = base64_encode(&auth_insert.node_to_mutate.id);
    (room_id, auth_id)
}

async fn insert_person(app: &GraphDatabaseService, room_id: &str) -> super::Result<()> {
    let mut param = Parameters::default();
    param.add("room_id", room_id.to_string()).unwrap();
    app.mutate_raw(
        r#"mutate {
            Person{ room_id:$room_id name:"x" }
        }"#,
        Some(param),
    )
    .await
    .map(|_| ())
}

async fn stored_definition(app: &GraphDatabaseService, room_id: &str) -> String {
    let mut param = Parameters::default();
    param.add("room_id", room_id.to_string()).unwrap();
    app.query(
        "query q{
            sys.Room(id=$room_id){
                authorisations{
                    rights (order_by(mdate desc)){ entity mutate_self mutate_all }
                    users (order_by(verif_key asc)){ verif_key }
                }
            }
        }",
        Some(param),
    )
    .await
    .unwrap()
}

const REVOKED: &str = r#"{"entity":"Person","mutate_self":false,"mutate_all":false}"#;

#[tokio::test(flavor = "multi_thread")]
async fn f29_two_entries_for_one_room_in_one_mutation() {
    // ---------------------------------------------------------------
    // control 1: the two changes as two separate mutations: the right is
    // revoked immediately
    // ---------------------------------------------------------------
    {
        let secret = random32();
        let (app, verifying_key) = start(&secret).await;
        let (room_id, auth_id) = create_room(&app, &verifying_key).await;
        insert_person(&app, &room_id)
            .await
            .expect("control: the granted right lets me insert a Person");
        tokio::time::sleep(Duration::from_millis(20)).await;

        let mut param = Parameters::default();
        param.add("r", room_id.clone()).unwrap();
        param.add("auth", auth_id.clone()).unwrap();
        app.mutate_raw(
            r#"mutate {
                sys.Room{ id:$r authorisations:[{ id:$auth
                    rights:[{ entity:"Person" mutate_self:false mutate_all:false }] }] }
            }"#,
            Some(param),
        )
        .await
        .expect("control: entry a alone is accepted");

        let mut param = Parameters::default();
        param.add("r", room_id.clone()).unwrap();
        param.add("auth", auth_id.clone()).unwrap();
        param.add("bob", BOB.to_string()).unwrap();
        app.mutate_raw(
            r#"mutate {
                sys.Room{ id:$r authorisations:[{ id:$auth
                    users:[{ verif_key:$bob }] }] }
            }"#,
            Some(param),
        )
        .await
        .expect("control: entry b alone is accepted");

        tokio::time::sleep(Duration::from_millis(20)).await;
        let stored = stored_definition(&app, &room_id).await;
        assert!(stored.contains(REVOKED), "control: {}", stored);
        assert!(stored.contains(BOB), "control: {}", stored);
        assert!(
            insert_person(&app, &room_id).await.is_err(),
            "control: a and b as two separate mutations must give the refusal immediately"
        );
    }

    // ---------------------------------------------------------------
    // the suspected case: a and b in ONE mutation query, two aliases, same room
    // ---------------------------------------------------------------
    let secret = random32();
    let (app, verifying_key) = start(&secret).await;
    let (room_id, auth_id) = create_room(&app, &verifying_key).await;
    insert_person(&app, &room_id)
        .await
        .expect("control: the granted right lets me insert a Person");
    tokio::time::sleep(Duration::from_millis(20)).await;

    let mut param = Parameters::default();
    param.add("r", room_id.clone()).unwrap();
    param.add("auth", auth_id.clone()).unwrap();
    param.add("bob", BOB.to_string()).unwrap();
    let two = app
        .mutate_raw(
            r#"mutate {
                a: sys.Room{ id:$r authorisations:[{ id:$auth
                    rights:[{ entity:"Person" mutate_self:false mutate_all:false }] }] }
                b: sys.Room{ id:$r authorisations:[{ id:$auth
                    users:[{ verif_key:$bob }] }] }
            }"#,
            Some(param),
        )
        .await;

    let two_err = match &two {
        Ok(_) => None,
        Err(e) => Some(e.to_string()),
    };
    println!("F29: two-alias mutation result: {:?}", two_err);
    tokio::time::sleep(Duration::from_millis(20)).await;

    let stored = stored_definition(&app, &room_id).await;
    println!("F29: stored definition after the two-alias mutation: {}", stored);
    let stored_has_a = stored.contains(REVOKED);
    let stored_has_b = stored.contains(BOB);

    // what the running instance answers
    let live = insert_person(&app, &room_id).await;
    println!(
        "F29: live Person insert after the two-alias mutation: {:?}",
        live.as_ref().map_err(|e| e.to_string())
    );

    // control 2: restart on the same folder: the in-memory rooms are rebuilt from
    // what is stored
    drop(app);
    let (app, _) = start(&secret).await;
    let after_restart = insert_person(&app, &room_id).await;
    println!(
        "F29: Person insert after restart: {:?}",
        after_restart.as_ref().map_err(|e| e.to_string())
    );

    if let Some(e) = two_err {
        // the mutation was refused as a whole: nothing of it may be stored and the
        // right is still there, before and after restart
        assert!(
            !stored_has_a && !stored_has_b,
            "C01 violated: a refused mutation left something stored: {} ({})",
            stored,
            e
        );
        assert!(live.is_ok(), "control: refused mutation changes nothing (live)");
        assert!(
            after_restart.is_ok(),
            "control: refused mutation changes nothing (after restart)"
        );
        println!("F29: two entries for one room refused: {}", e);
        return;
    }

    assert!(
        stored_has_a && stored_has_b,
        "control: an accepted two-alias mutation stores both changes: {}",
        stored
    );
    assert!(
        after_restart.is_err(),
        "control: after restart the stored revocation is honoured"
    );
    assert!(
        live.is_err(),
        "C01 violated: a right revoked in the stored definition is still honoured by the running instance (stored: {})",
        stored
    );
}
