//! Witness F43: the authorisation decisions must not depend on how the namespace of an entity name is spelled.
//!
//! `DataModel::get_entity` lower-cases the namespace part of a name (`NS.Person` is `ns.Person`,
//! `SYS.Authorisation` is `sys.Authorisation`), so the mutation and deletion parsers accept both spellings
//! for the same entity. The rights of a room are given on the model's name (`ns.Person`) and the rows that
//! define a room are guarded by name (`sys.Authorisation`, ...): every spelling the parser accepts must get
//! the same decision as the model's own name.
//!
//! Each test asserts the property, the control assertions (`expect`/`expect_err` on the model's own spelling)
//! only check that the scenario is the intended one.
use std::{fs, path::PathBuf};

use crate::{
    configuration::Configuration,
    database::{
        graph_database::GraphDatabaseService,
        query_language::parameter::{Parameters, ParametersAdd},
    },
    event_service::EventService,
    security::{base64_encode, random32},
};

const DATA_PATH: &str = "test_data/tmp/verif_witness_f43/";

async fn start(test: &str, data_model: &str) -> (GraphDatabaseService, String) {
    let path: PathBuf = format!("{}{}/", DATA_PATH, test).into();
    let _ = fs::remove_dir_all(&path);
    fs::create_dir_all(&path).unwrap();
    let (app, verifying_key, _) = GraphDatabaseService::start(
        "verif witness f43",
        data_model,
        &random32(),
        &random32(),
        path,
        &Configuration::default(),
        EventService::new(),
    )
    .await
    .unwrap();
    let user_id = base64_encode(&verifying_key);
    (app, user_id)
}

///
/// creates a room whose only authorisation has the rights `ns.Person -> person_right` and `* -> (true,true)`
/// the caller is the admin of the room: `Room::can` consults the rights for the admins too
/// returns (room_id, authorisation id)
///
async fn create_room(
    app: &GraphDatabaseService,
    user_id: &str,
    person_right: bool,
) -> (String, String) {
    let mut param = Parameters::default();
    param.add("user_id", user_id.to_string()).unwrap();
    param.add("person_right", person_right).unwrap();
    let room = app
        .mutate_raw(
            r#"mutate mut {
                sys.Room{
                    admin: [{ verif_key:$user_id }]
                    authorisations:[{
                        name:"members"
                        rights:[
                            { entity:"ns.Person" mutate_self:$person_right mutate_all:$person_right },
                            { entity:"*" mutate_self:true mutate_all:true }
                        ]
                    }]
                }
            }"#,
            Some(param),
        )
        .await
        .unwrap();
    let room_insert = &room.mutate_entities[0];
    let room_id = base64_encode(&room_insert.node_to_mutate.id);
    let auth_insert = &room_insert.sub_nodes.get("authorisations").unwrap()[0];
    let auth_id = base64_encode(&auth_insert.node_to_mutate.id);
    (room_id, auth_id)
}

const PERSONS: &str = "query q{ ns.Person(order_by(name asc), nullable(parents)){ name parents(order_by(name asc)){name} } }";
const AUTHS: &str = "query q{ sys.Room{ authorisations{ name } } }";

#[tokio::test(flavor = "multi_thread")]
async fn f43_upper_case_namespace_uses_the_wildcard_right() {
    let (app, user_id) = start(
        "wildcard",
        "ns { Person{ name:String, parents:[ns.Person] } Pet{ name:String } }",
    )
    .await;
    let (room_id, _) = create_room(&app, &user_id, false).await;

    //controls: the wildcard right is used for the entities that have no right of their own, ns.Person has its own
    let mut param = Parameters::default();
    param.add("room_id", room_id.clone()).unwrap();
    app.mutate_raw(
        r#"mutate { ns.Pet{ room_id:$room_id name:"kiki" } }"#,
        Some(param),
    )
    .await
    .expect("control: '*' gives (true,true) to ns.Pet");

    //control: the other spellings of the namespace are accepted names, the result is returned under the name as written
    let mut param = Parameters::default();
    param.add("room_id", room_id.clone()).unwrap();
    let result = app
        .mutate(
            r#"mutate { NS.Pet{ room_id:$room_id name:"koko" } }"#,
            Some(param),
        )
        .await
        .expect("control: NS.Pet is ns.Pet, '*' gives (true,true)");
    assert!(result.contains("\"NS.Pet\""), "{}", result);

    let mut param = Parameters::default();
    param.add("room_id", room_id.clone()).unwrap();
    app.mutate_raw(
        r#"mutate { ns.Person{ room_id:$room_id name:"a" } }"#,
        Some(param),
    )
    .await
    .expect_err("control: the room gives (false,false) on ns.Person");

    //property
    let mut param = Parameters::default();
    param.add("room_id", room_id.clone()).unwrap();
    let upper = app
        .mutate_raw(
            r#"mutate { NS.Person{ room_id:$room_id name:"b" } }"#,
            Some(param),
        )
        .await;
    let stored = app.query(PERSONS, None).await.unwrap();
    assert!(
        upper.is_err(),
        "F43: the room gives (false,false) on ns.Person and `ns.Person{{..}}` is refused, but the same insertion written `NS.Person{{..}}` is accepted (the '*' right is used): stored persons {}",
        stored
    );
    assert_eq!(stored, "{\n\"ns.Person\":[]\n}");
}

#[tokio::test(flavor = "multi_thread")]
async fn f43_upper_case_sys_namespace_changes_an_authorisation_row() {
    let (app, user_id) = start("sys_authorisation", "ns { Person{ name:String } }").await;
    let (_, auth_id) = create_room(&app, &user_id, true).await;

    //control: an authorisation only changes through a mutation of its room
    let mut param = Parameters::default();
    param.add("auth_id", auth_id.clone()).unwrap();
    app.mutate_raw(
        r#"mutate { sys.Authorisation{ id:$auth_id name:"renamed" } }"#,
        Some(param),
    )
    .await
    .expect_err("control: sys.Authorisation cannot be mutated outside a room mutation");

    //property
    let mut param = Parameters::default();
    param.add("auth_id", auth_id.clone()).unwrap();
    let upper = app
        .mutate_raw(
            r#"mutate { SYS.Authorisation{ id:$auth_id name:"hacked" } }"#,
            Some(param),
        )
        .await;
    let stored = app.query(AUTHS, None).await.unwrap();
    assert!(
        upper.is_err(),
        "F43: `sys.Authorisation{{id:$auth_id ..}}` is refused (InvalidAuthorisationMutation) but the same mutation written `SYS.Authorisation{{..}}` is accepted: an authorisation row is changed outside a room mutation, stored rooms {}",
        stored
    );
    assert_eq!(
        stored,
        "{\n\"sys.Room\":[{\"authorisations\":[{\"name\":\"members\"}]}]\n}"
    );
}

#[tokio::test(flavor = "multi_thread")]
async fn f43_upper_case_sys_namespace_deletes_an_authorisation_row() {
    let (app, user_id) = start("sys_authorisation_deletion", "ns { Person{ name:String } }").await;
    let (_, auth_id) = create_room(&app, &user_id, true).await;

    //control: the rows that define a room are never deleted
    let mut param = Parameters::default();
    param.add("id", auth_id.clone()).unwrap();
    app.delete("delete { sys.Authorisation{ $id } }", Some(param))
        .await
        .expect_err("control: sys.Authorisation cannot be deleted");

    //property
    let mut param = Parameters::default();
    param.add("id", auth_id.clone()).unwrap();
    let upper = app
        .delete("delete { SYS.Authorisation{ $id } }", Some(param))
        .await;
    let stored = app.query(AUTHS, None).await.unwrap();
    assert!(
        upper.is_err(),
        "F43: `delete {{ sys.Authorisation{{$id}} }}` is refused (DeleteNotAllowed) but the same deletion written `SYS.Authorisation{{$id}}` is accepted: stored rooms {}",
        stored
    );
    assert_eq!(
        stored,
        "{\n\"sys.Room\":[{\"authorisations\":[{\"name\":\"members\"}]}]\n}"
    );
}

#[tokio::test(flavor = "multi_thread")]
async fn f43_upper_case_namespace_deletion() {
    let (app, user_id) = start(
        "deletion",
        "ns { Person{ name:String, parents:[ns.Person] } }",
    )
    .await;
    let (room_id, auth_id) = create_room(&app, &user_id, true).await;

    let mut param = Parameters::default();
    param.add("room_id", room_id.clone()).unwrap();
    let mutat = app
        .mutate_raw(
            r#"mutate {
                P1: ns.Person{ room_id:$room_id name:"me" parents:[{name:"father"}] }
                P2: ns.Person{ room_id:$room_id name:"other" }
            }"#,
            Some(param),
        )
        .await
        .expect("control: the room gives (true,true) on ns.Person");
    let p1 = &mutat.mutate_entities[0];
    let id1 = base64_encode(&p1.node_to_mutate.id);
    let father_id = base64_encode(&p1.sub_nodes.get("parents").unwrap()[0].node_to_mutate.id);
    let id2 = base64_encode(&mutat.mutate_entities[1].node_to_mutate.id);

    //the right on ns.Person is removed, the wildcard right stays (true,true)
    let mut param = Parameters::default();
    param.add("id", room_id.clone()).unwrap();
    param.add("auth_id", auth_id).unwrap();
    app.mutate_raw(
        r#"mutate {
            sys.Room{
                id:$id
                authorisations:[{
                    id:$auth_id
                    rights:[{ entity:"ns.Person" mutate_self:false mutate_all:false }]
                }]
            }
        }"#,
        Some(param),
    )
    .await
    .unwrap();

    let before = "{\n\"ns.Person\":[{\"name\":\"father\",\"parents\":[]},{\"name\":\"me\",\"parents\":[{\"name\":\"father\"}]},{\"name\":\"other\",\"parents\":[]}]\n}";
    assert_eq!(app.query(PERSONS, None).await.unwrap(), before);

    //controls
    let mut param = Parameters::default();
    param.add("id", id2.clone()).unwrap();
    app.delete("delete { ns.Person{ $id } }", Some(param))
        .await
        .expect_err("control: the room gives (false,false) on ns.Person");
    let mut param = Parameters::default();
    param.add("id", id1.clone()).unwrap();
    param.add("father_id", father_id.clone()).unwrap();
    app.delete(
        "delete { ns.Person{ $id parents[$father_id] } }",
        Some(param),
    )
    .await
    .expect_err("control: the room gives (false,false) on ns.Person");
    assert_eq!(app.query(PERSONS, None).await.unwrap(), before);

    //property
    let mut param = Parameters::default();
    param.add("id", id2.clone()).unwrap();
    let upper_node = app
        .delete("delete { NS.Person{ $id } }", Some(param))
        .await;

    let mut param = Parameters::default();
    param.add("id", id1.clone()).unwrap();
    param.add("father_id", father_id.clone()).unwrap();
    let upper_edge = app
        .delete(
            "delete { NS.Person{ $id parents[$father_id] } }",
            Some(param),
        )
        .await;

    let stored = app.query(PERSONS, None).await.unwrap();
    assert!(
        upper_node.is_err() && upper_edge.is_err(),
        "F43: the room gives (false,false) on ns.Person and `delete {{ ns.Person{{..}} }}` is refused, but written `NS.Person` the row deletion is {} and the reference deletion is {} (the '*' right is used): stored persons {}",
        if upper_node.is_err() { "refused" } else { "ACCEPTED" },
        if upper_edge.is_err() { "refused" } else { "ACCEPTED" },
        stored
    );
    assert_eq!(stored, before);
}

///
/// same mechanism, one step further: the type of a field keeps the namespace as it is written in the data model
/// (`pets:[NS.Pet]`), and that type is the name given to the rows written under that field
///
#[tokio::test(flavor = "multi_thread")]
async fn f43_field_type_spelling_of_the_data_model() {
    let (app, user_id) = start(
        "field_type",
        "ns { Person{ name:String, pets:[NS.Pet], parents:[ns.Person] } Pet{ name:String } }",
    )
    .await;

    let mut param = Parameters::default();
    param.add("user_id", user_id.to_string()).unwrap();
    let room = app
        .mutate_raw(
            r#"mutate mut {
                sys.Room{
                    admin: [{ verif_key:$user_id }]
                    authorisations:[{
                        name:"members"
                        rights:[
                            { entity:"ns.Pet" mutate_self:false mutate_all:false },
                            { entity:"*" mutate_self:true mutate_all:true }
                        ]
                    }]
                }
            }"#,
            Some(param),
        )
        .await
        .unwrap();
    let room_id = base64_encode(&room.mutate_entities[0].node_to_mutate.id);

    let mut param = Parameters::default();
    param.add("room_id", room_id.clone()).unwrap();
    app.mutate_raw(
        r#"mutate { ns.Pet{ room_id:$room_id name:"kiki" } }"#,
        Some(param),
    )
    .await
    .expect_err("control: the room gives (false,false) on ns.Pet");

    //property
    let mut param = Parameters::default();
    param.add("room_id", room_id.clone()).unwrap();
    let nested = app
        .mutate_raw(
            r#"mutate { ns.Person{ room_id:$room_id name:"me" pets:[{name:"kiki"}] } }"#,
            Some(param),
        )
        .await;
    let stored = app
        .query("query q{ ns.Pet{ name } }", None)
        .await
        .unwrap();
    assert!(
        nested.is_err(),
        "F43: the room gives (false,false) on ns.Pet and `ns.Pet{{..}}` is refused, but a ns.Pet row written under the field `pets:[NS.Pet]` is accepted (the '*' right is used): stored pets {}",
        stored
    );
    assert_eq!(stored, "{\n\"ns.Pet\":[]\n}");
}
