use std::{fs, path::PathBuf};

use crate::{
    configuration::Configuration,
    database::{
        graph_database::GraphDatabaseService,
        query_language::parameter::{Parameters, ParametersAdd},
    },
    event_service::EventService,
    security::{base64_encode, random32},
};

const DATA_PATH: &str = "test_data/tmp/seeded_scratch_c01/";

#[tokio::test(flavor = "multi_thread")]
async fn seeded_scratch_namespace_case() {
    let path: PathBuf = DATA_PATH.into();
    fs::create_dir_all(&path).unwrap();
    let data_model = "ns {Person{ name:String }}";
    let (app, verifying_key, _) = GraphDatabaseService::start(
        "seeded scratch c01",
        data_model,
        &random32(),
        &random32(),
        path,
        &Configuration::default(),
        EventService::new(),
    )
    .await
    .unwrap();
    let user_id = base64_encode(&verifying_key);
    let mut param = Parameters::default();
    param.add("user_id", user_id.to_string()).unwrap();
    let room = app
        .mutate_raw(
            r#"mutate mut {
                sys.Room{
                    admin: [{ verif_key:$user_id }]
                    authorisations:[{
                        name:"members"
                        rights:[{ entity:"ns.Person" mutate_self:false mutate_all:false },
                                { entity:"*" mutate_self:true mutate_all:true }]
                    }]
                }
            }"#,
            Some(param),
        )
        .await
        .unwrap();
    let room_insert = &room.mutate_entities[0];
    let room_id = base64_encode(&room_insert.node_to_mutate.id);
    let auth_insert = &room_insert.sub_nodes.get("authorisations").unwrap()[0];
    let auth_id = base64_encode(&auth_insert.node_to_mutate.id);

    let mut param = Parameters::default();
    param.add("room_id", room_id.clone()).unwrap();
    let r1 = app
        .mutate_raw(r#"mutate { ns.Person{ room_id:$room_id name:"a" } }"#, Some(param))
        .await;
    println!("SCRATCH ns.Person insert: {:?}", r1.is_ok());

    let mut param = Parameters::default();
    param.add("room_id", room_id.clone()).unwrap();
    let r2 = app
        .mutate_raw(r#"mutate { NS.Person{ room_id:$room_id name:"b" } }"#, Some(param))
        .await;
    println!("SCRATCH NS.Person insert: {:?} {:?}", r2.is_ok(), r2.as_ref().err());

    let mut param = Parameters::default();
    param.add("auth_id", auth_id.clone()).unwrap();
    let r3 = app
        .mutate_raw(
            r#"mutate { SYS.Authorisation{ id:$auth_id rights:[{ entity:"ns.Person" mutate_self:true mutate_all:true }] } }"#,
            Some(param),
        )
        .await;
    println!("SCRATCH SYS.Authorisation mutate: {:?} {:?}", r3.is_ok(), r3.as_ref().err());

    let mut param = Parameters::default();
    param.add("auth_id", auth_id.clone()).unwrap();
    let r4 = app
        .mutate_raw(r#"mutate { SYS.Authorisation{ id:$auth_id name:"hacked" } }"#, Some(param))
        .await;
    println!("SCRATCH SYS.Authorisation rename: {:?} {:?}", r4.is_ok(), r4.as_ref().err());
    let mut param = Parameters::default();
    param.add("auth_id", auth_id.clone()).unwrap();
    let r5 = app
        .mutate_raw(r#"mutate { sys.Authorisation{ id:$auth_id name:"hacked2" } }"#, Some(param))
        .await;
    println!("SCRATCH sys.Authorisation rename: {:?} {:?}", r5.is_ok(), r5.as_ref().err());
    let res = app.query("query q{ sys.Room{ authorisations{ name rights(order_by(mdate asc)){ entity mutate_self mutate_all } } } }", None).await.unwrap();
    println!("SCRATCH rooms: {}", res);
    let res = app.query("query q{ ns.Person{ name } }", None).await.unwrap();
    println!("SCRATCH persons: {}", res);
}

