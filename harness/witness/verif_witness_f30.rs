//! Witness for F30 / property C02:
//! a row received during synchronisation that REPLACES a stored row needs the all-rows right
//! (when the stored row has another author) on THAT row, i.e. on the entity of the stored row.
//!
//! The incoming rows are pushed through `filter_existing_node` + `add_nodes`, exactly like
//! `synchronise_day` does (src/synchronisation/peer_inbound_service.rs).
#[cfg(test)]
mod tests {
    use std::{collections::HashSet, fs, path::PathBuf};

    use crate::{
        configuration::Configuration,
        database::{
            graph_database::GraphDatabaseService,
            node::{Node, NodeIdentifier},
            query_language::parameter::{Parameters, ParametersAdd},
        },
        date_utils::now,
        event_service::EventService,
        security::{base64_encode, random32, Ed25519SigningKey, SigningKey, Uid},
    };

    const DATA_PATH: &str = "test_data/database/verif_witness_f30/";
    fn init_database_path() {
        let path: PathBuf = DATA_PATH.into();
        fs::create_dir_all(&path).unwrap();
    }

    /// full stored definition of a row, as a synchronising peer would get it
    async fn stored_node(app: &GraphDatabaseService, room_id: Uid, id: Uid) -> Option<Node> {
        let mut recv = app.get_nodes(room_id, vec![id]).await;
        let mut found = None;
        while let Some(nodes) = recv.recv().await {
            for node in nodes.unwrap() {
                if node.id == id {
                    found = Some(node);
                }
            }
        }
        found
    }

    /// what synchronise_day does with a row announced and then sent by a peer:
    /// filter_existing_node on its identifier, then add_nodes on the verified row
    async fn receive(app: &GraphDatabaseService, room_id: Uid, incoming: Node) -> Vec<Uid> {
        incoming.verify().expect("the incoming row is properly signed");
        let mut announced = HashSet::new();
        announced.insert(NodeIdentifier {
            id: incoming.id,
            mdate: incoming.mdate,
            signature: incoming._signature.clone(),
        });
        let mut filtered = app.filter_existing_node(announced).await.unwrap();
        assert_eq!(
            filtered.len(),
            1,
            "set-up: the incoming row is newer than the stored one, it is requested"
        );
        let mut nti = filtered.pop().unwrap();
        assert!(
            nti.old_local_id.is_some(),
            "set-up: the incoming row replaces a stored row"
        );
        let mut node = incoming;
        node._local_id = nti.old_local_id;
        nti.node = Some(node);
        app.add_nodes(room_id, vec![nti]).await.unwrap()
    }

    #[tokio::test(flavor = "multi_thread")]
    async fn replace_row_with_row_of_another_entity() {
        init_database_path();
        let data_model = "{Post{ title:String } Comment{ text:String }}";
        let path: PathBuf = DATA_PATH.into();
        let (app, verifying_key, _) = GraphDatabaseService::start(
            "verif witness f30",
            data_model,
            &random32(),
            &random32(),
            path,
            &Configuration::default(),
            EventService::new(),
        )
        .await
        .unwrap();

        //the member M: a second key
        let m_key = Ed25519SigningKey::create_from(&random32());
        let m_verifying_key = m_key.export_verifying_key();

        let mut param = Parameters::default();
        param
            .add("v_id", base64_encode(&verifying_key))
            .unwrap();
        param
            .add("m_id", base64_encode(&m_verifying_key))
            .unwrap();

        let room = app
            .mutate_raw(
                r#"mutate mut {
                    sys.Room{
                        admin: [{
                            verif_key:$v_id
                        }]
                        authorisations:[{
                            name:"owner"
                            rights:[{
                                entity:"Post"
                                mutate_self:true
                                mutate_all:true
                            },{
                                entity:"Comment"
                                mutate_self:true
                                mutate_all:true
                            }]
                            users:[{
                                verif_key:$v_id
                            }]
                        },{
                            name:"members"
                            rights:[{
                                entity:"Post"
                                mutate_self:true
                                mutate_all:false
                            },{
                                entity:"Comment"
                                mutate_self:true
                                mutate_all:true
                            }]
                            users:[{
                                verif_key:$m_id
                            }]
                        }]
                    }
                }"#,
                Some(param),
            )
            .await
            .unwrap();
        let room_uid: Uid = room.mutate_entities[0].node_to_mutate.id;
        let room_id = base64_encode(&room_uid);

        //V creates Post X, and two Comment: one to be legitimately replaced by M, one used as a template
        let mut param = Parameters::default();
        param.add("room_id", room_id.clone()).unwrap();
        let res = app
            .mutate_raw(
                r#"mutate {
                    Post{
                        room_id: $room_id
                        title: "the post of V"
                    }
                }"#,
                Some(param),
            )
            .await
            .unwrap();
        let post_uid: Uid = res.mutate_entities[0].node_to_mutate.id;

        let mut param = Parameters::default();
        param.add("room_id", room_id.clone()).unwrap();
        let res = app
            .mutate_raw(
                r#"mutate {
                    Comment{
                        room_id: $room_id
                        text: "the comment of V"
                    }
                }"#,
                Some(param),
            )
            .await
            .unwrap();
        let comment_uid: Uid = res.mutate_entities[0].node_to_mutate.id;

        let stored_post = stored_node(&app, room_uid, post_uid)
            .await
            .expect("set-up: Post X is stored");
        let stored_comment = stored_node(&app, room_uid, comment_uid)
            .await
            .expect("set-up: the Comment is stored");
        assert_eq!(stored_post.verifying_key, verifying_key);
        assert_eq!(stored_comment.verifying_key, verifying_key);
        assert_ne!(
            stored_post._entity, stored_comment._entity,
            "set-up: two different entities"
        );

        let post_query = "query q{ Post{ id title } }";
        let comment_query = "query q{ Comment(order_by(text asc)){ id text } }";
        let posts_before = app.query(post_query, None).await.unwrap();
        assert!(
            posts_before.contains(&base64_encode(&post_uid))
                && posts_before.contains("the post of V"),
            "set-up: query Post returns X: {posts_before}"
        );

        let date = now() + 10;

        //
        // Control 1: M has mutate_all on Comment: replacing the Comment of V is accepted
        //
        let mut m_comment = stored_comment.clone();
        m_comment._local_id = None;
        m_comment.mdate = date;
        m_comment._json = Some(
            stored_comment
                ._json
                .clone()
                .unwrap()
                .replace("the comment of V", "rewritten by M"),
        );
        m_comment.sign(&m_key).unwrap();
        let rejected = receive(&app, room_uid, m_comment).await;
        assert!(
            rejected.is_empty(),
            "control: M has the all-rows right on Comment, replacing a Comment of V is accepted"
        );
        let comments = app.query(comment_query, None).await.unwrap();
        assert!(
            comments.contains("rewritten by M") && !comments.contains("the comment of V"),
            "control: the Comment of V has been replaced: {comments}"
        );

        //
        // Control 2: M has no all-rows right on Post: a new Post version of X signed by M is refused
        //
        let mut m_post = stored_post.clone();
        m_post._local_id = None;
        m_post.mdate = date;
        m_post._json = Some(
            stored_post
                ._json
                .clone()
                .unwrap()
                .replace("the post of V", "post rewritten by M"),
        );
        m_post.sign(&m_key).unwrap();
        let rejected = receive(&app, room_uid, m_post).await;
        assert_eq!(
            rejected,
            vec![post_uid],
            "control: M has not the all-rows right on Post, a Post version of X signed by M is refused"
        );
        let posts = app.query(post_query, None).await.unwrap();
        assert_eq!(posts, posts_before, "control: X is untouched");

        //
        // The forged row: id of Post X, entity and JSON of a Comment, signed by M
        //
        let mut forged = stored_comment.clone();
        forged._local_id = None;
        forged.id = post_uid;
        forged.cdate = stored_post.cdate;
        forged.mdate = date + 1;
        forged._json = Some(
            stored_comment
                ._json
                .clone()
                .unwrap()
                .replace("the comment of V", "forged by M"),
        );
        forged.sign(&m_key).unwrap();
        let forged_entity = forged._entity.clone();
        let rejected = receive(&app, room_uid, forged).await;

        let posts = app.query(post_query, None).await.unwrap();
        let comments = app.query(comment_query, None).await.unwrap();
        let now_stored = stored_node(&app, room_uid, post_uid).await;
        println!("rejected: {:?}", rejected.iter().map(|u| base64_encode(u)).collect::<Vec<_>>());
        println!("Post    : {posts}");
        println!("Comment : {comments}");
        if let Some(n) = &now_stored {
            println!(
                "row X   : _entity {} (Post is {}, Comment is {}), author is M: {}",
                n._entity,
                stored_post._entity,
                forged_entity,
                n.verifying_key == m_verifying_key
            );
        }

        assert_eq!(
            rejected,
            vec![post_uid],
            "C02 violated: a stored row was replaced by a row of another entity, with the right checked on the incoming entity"
        );
        assert_eq!(
            posts, posts_before,
            "C02 violated: query Post does not return X anymore"
        );
        let now_stored = now_stored.expect("X is still stored");
        assert!(
            now_stored.eq(&stored_post),
            "C02 violated: the stored row X is not the Post of V anymore"
        );
        assert!(
            !comments.contains("forged by M"),
            "C02 violated: X is now returned by query Comment"
        );
    }
}
