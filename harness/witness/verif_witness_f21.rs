//! Witness tests for candidate defect F21 (property C09: the content of `_daily_log`
//! must be a function of the stored rows only, not of the order / batching of the writes).
//!
//! Both tests drive the real `DailyMutations::{set_need_update, write}` and
//! `DailyLogsUpdate::compute` on in-memory databases whose schema is created by the crate's own
//! `prepare_connection`. Rows of `_node` are inserted with plain SQL so that every value
//! (room, entity, mdate, signature) is fixed: the tests are fully deterministic.
//!
//! Run with:
//!     cargo test --offline --lib verif_witness_f21 -- --nocapture

use rusqlite::Connection;

use super::{DailyLogsUpdate, DailyMutations};
use crate::{
    database::sqlite_database::prepare_connection,
    date_utils::{date, date_next_day},
    security::Uid,
};

const MS_PER_DAY: i64 = 86_400_000;
/// 2022-01-08 00:00:00 UTC
const DAY1: i64 = MS_PER_DAY * 19_000;
const DAY2: i64 = DAY1 + MS_PER_DAY;

const ROOM: Uid = [7u8; 16];

#[derive(Debug, Clone, PartialEq, Eq)]
struct LogRow {
    room_id: Uid,
    entity: String,
    date: i64,
    entry_number: i64,
    daily_hash: Option<Vec<u8>>,
    history_hash: Option<Vec<u8>>,
    need_recompute: Option<i64>,
}

fn hex(bytes: &[u8]) -> String {
    let mut s = String::with_capacity(bytes.len() * 2);
    for b in bytes {
        s.push_str(&format!("{:02x}", b));
    }
    s
}

fn hex_opt(v: &Option<Vec<u8>>) -> String {
    match v {
        Some(v) => hex(v),
        None => "NULL".to_string(),
    }
}

fn new_db() -> Connection {
    let conn = Connection::open_in_memory().unwrap();
    prepare_connection(&conn).unwrap();
    conn
}

/// one `_node` row; `tag` makes id and signature distinct and recognisable
fn insert_node(conn: &Connection, room: &Uid, entity: &str, mdate: i64, tag: u8) {
    let id: Uid = [tag; 16];
    let signature: Vec<u8> = vec![tag; 64];
    let verifying_key: Vec<u8> = vec![1u8; 32];
    conn.execute(
        "INSERT INTO _node (id, room_id, cdate, mdate, _entity, _json, _binary, verifying_key, _signature)
         VALUES (?, ?, ?, ?, ?, NULL, NULL, ?, ?)",
        (&id, room, mdate, mdate, entity, &verifying_key, &signature),
    )
    .unwrap();
}

/// what the writer thread does at the end of a batch: mark the days, then recompute
fn mark_and_compute(conn: &Connection, marks: &[(&Uid, &str, i64)]) {
    let mut mutations = DailyMutations::new();
    for (room, entity, d) in marks {
        mutations.set_need_update(**room, &entity.to_string(), *d);
    }
    mutations.write(conn).unwrap();
    DailyLogsUpdate::default().compute(conn).unwrap();
}

fn read_log(conn: &Connection) -> Vec<LogRow> {
    let mut stmt = conn
        .prepare(
            "SELECT room_id, entity, date, entry_number, daily_hash, history_hash, need_recompute
             FROM _daily_log ORDER BY room_id, entity, date",
        )
        .unwrap();
    let mut rows = stmt.query([]).unwrap();
    let mut res = Vec::new();
    while let Some(row) = rows.next().unwrap() {
        res.push(LogRow {
            room_id: row.get(0).unwrap(),
            entity: row.get(1).unwrap(),
            date: row.get(2).unwrap(),
            entry_number: row.get(3).unwrap(),
            daily_hash: row.get(4).unwrap(),
            history_hash: row.get(5).unwrap(),
            need_recompute: row.get(6).unwrap(),
        });
    }
    res
}

fn dump(name: &str, rows: &[LogRow]) -> String {
    let mut s = format!("  _daily_log of {} ({} rows)\n", name, rows.len());
    for r in rows {
        s.push_str(&format!(
            "    room={} entity={} date={} (day {}) entry_number={} need_recompute={:?}\n      daily_hash   = {}\n      history_hash = {}\n",
            hex(&r.room_id),
            r.entity,
            r.date,
            r.date / MS_PER_DAY,
            r.entry_number,
            r.need_recompute,
            hex_opt(&r.daily_hash),
            hex_opt(&r.history_hash),
        ));
    }
    s
}

fn blake3_of(parts: &[&[u8]]) -> Vec<u8> {
    let mut hasher = blake3::Hasher::new();
    for p in parts {
        hasher.update(p);
    }
    hasher.finalize().as_bytes().to_vec()
}

/// Controls shared by both tests: same keys, everything recomputed, same per-day digests.
/// These must hold whatever the fate of the suspicion; they show the two databases really hold
/// the same data and that the only difference (if any) is in `history_hash`.
fn controls(x: &[LogRow], y: &[LogRow]) {
    assert_eq!(
        x.len(),
        y.len(),
        "control: different number of _daily_log rows\n{}{}",
        dump("X", x),
        dump("Y", y)
    );
    for (rx, ry) in x.iter().zip(y.iter()) {
        assert_eq!(
            (&rx.room_id, &rx.entity, rx.date),
            (&ry.room_id, &ry.entity, ry.date),
            "control: different keys"
        );
        assert_eq!(rx.need_recompute, Some(0), "control: X still dirty {:?}", rx);
        assert_eq!(ry.need_recompute, Some(0), "control: Y still dirty {:?}", ry);
        assert_eq!(rx.entry_number, 1, "control: X entry_number {:?}", rx);
        assert_eq!(ry.entry_number, 1, "control: Y entry_number {:?}", ry);
        assert!(rx.daily_hash.is_some(), "control: X daily_hash NULL {:?}", rx);
        assert_eq!(
            rx.daily_hash, ry.daily_hash,
            "control: daily_hash differs between X and Y"
        );
    }
}

/// Suspicion (a): the history_hash of a day depends on whether the previous day of the same
/// (room, entity) was recomputed in the same `compute` run or was already clean.
#[test]
fn f21_history_hash_depends_on_batching() {
    assert_eq!(date(DAY1), DAY1);
    assert_eq!(date_next_day(DAY1), DAY2);
    let entity = "1.0";

    // X: one compute per day (incremental)
    let x = new_db();
    insert_node(&x, &ROOM, entity, DAY1 + 1_000, 0xA1);
    mark_and_compute(&x, &[(&ROOM, entity, DAY1 + 1_000)]);
    insert_node(&x, &ROOM, entity, DAY2 + 2_000, 0xA2);
    mark_and_compute(&x, &[(&ROOM, entity, DAY2 + 2_000)]);

    // Y: same two rows, both days marked, one compute
    let y = new_db();
    insert_node(&y, &ROOM, entity, DAY1 + 1_000, 0xA1);
    insert_node(&y, &ROOM, entity, DAY2 + 2_000, 0xA2);
    mark_and_compute(
        &y,
        &[(&ROOM, entity, DAY1 + 1_000), (&ROOM, entity, DAY2 + 2_000)],
    );

    let lx = read_log(&x);
    let ly = read_log(&y);

    // controls
    assert_eq!(lx.len(), 2);
    controls(&lx, &ly);
    assert_eq!(lx[0].date, DAY1);
    assert_eq!(lx[1].date, DAY2);
    // the digest of a day is blake3 of the signatures of that day
    assert_eq!(lx[0].daily_hash, Some(blake3_of(&[&[0xA1u8; 64]])));
    assert_eq!(lx[1].daily_hash, Some(blake3_of(&[&[0xA2u8; 64]])));
    // what the documented chain says: first day of the group history = daily,
    // day 2: blake3(history(day1) || daily(day1))
    let expected_day1 = lx[0].daily_hash.clone();
    let expected_day2 = Some(blake3_of(&[
        expected_day1.as_ref().unwrap(),
        lx[0].daily_hash.as_ref().unwrap(),
    ]));
    let verdict = format!(
        "  documented chain: history(day1) = daily(day1) = {}\n                    history(day2) = blake3(history(day1) || daily(day1)) = {}\n  X (one compute per day)        day1 conforms: {}  day2 conforms: {}\n  Y (one compute for both days)  day1 conforms: {}  day2 conforms: {}\n",
        hex_opt(&expected_day1),
        hex_opt(&expected_day2),
        lx[0].history_hash == expected_day1,
        lx[1].history_hash == expected_day2,
        ly[0].history_hash == expected_day1,
        ly[1].history_hash == expected_day2,
    );

    assert!(
        lx == ly,
        "C09 violated: same _node rows, but _daily_log differs between incremental computation (X) and a single computation (Y)\n{}{}{}",
        dump("X", &lx),
        dump("Y", &ly),
        verdict
    );
    // if they are equal they must also be the documented values
    assert_eq!(lx[0].history_hash, expected_day1, "{}", verdict);
    assert_eq!(lx[1].history_hash, expected_day2, "{}", verdict);
}

/// Suspicion (b): the history_hash of (room, entity B) depends on whether another entity A of the
/// same room was recomputed in the same `compute` run.
#[test]
fn f21_history_hash_depends_on_other_entities() {
    let ent_a = "1.0";
    let ent_b = "1.1";

    // X: A and B written in the same batch
    let x = new_db();
    insert_node(&x, &ROOM, ent_a, DAY1 + 1_000, 0xA1);
    insert_node(&x, &ROOM, ent_b, DAY1 + 2_000, 0xB1);
    mark_and_compute(
        &x,
        &[(&ROOM, ent_a, DAY1 + 1_000), (&ROOM, ent_b, DAY1 + 2_000)],
    );

    // Y: same rows, A in a first batch, B in a second one
    let y = new_db();
    insert_node(&y, &ROOM, ent_a, DAY1 + 1_000, 0xA1);
    mark_and_compute(&y, &[(&ROOM, ent_a, DAY1 + 1_000)]);
    insert_node(&y, &ROOM, ent_b, DAY1 + 2_000, 0xB1);
    mark_and_compute(&y, &[(&ROOM, ent_b, DAY1 + 2_000)]);

    // Z: same rows, B first, then A
    let z = new_db();
    insert_node(&z, &ROOM, ent_b, DAY1 + 2_000, 0xB1);
    mark_and_compute(&z, &[(&ROOM, ent_b, DAY1 + 2_000)]);
    insert_node(&z, &ROOM, ent_a, DAY1 + 1_000, 0xA1);
    mark_and_compute(&z, &[(&ROOM, ent_a, DAY1 + 1_000)]);

    let lx = read_log(&x);
    let ly = read_log(&y);
    let lz = read_log(&z);

    // controls
    assert_eq!(lx.len(), 2);
    controls(&lx, &ly);
    controls(&lx, &lz);
    assert_eq!((lx[0].entity.as_str(), lx[0].date), (ent_a, DAY1));
    assert_eq!((lx[1].entity.as_str(), lx[1].date), (ent_b, DAY1));
    assert_eq!(lx[0].daily_hash, Some(blake3_of(&[&[0xA1u8; 64]])));
    assert_eq!(lx[1].daily_hash, Some(blake3_of(&[&[0xB1u8; 64]])));
    // entity A is the first row of every result set: history = daily everywhere
    assert_eq!(lx[0].history_hash, lx[0].daily_hash);
    assert_eq!(ly[0].history_hash, ly[0].daily_hash);
    assert_eq!(lz[0].history_hash, lz[0].daily_hash);

    // first (and only) day of (room, B): the documented value is history = daily
    let expected_b = lx[1].daily_hash.clone();
    let chained_on_a = Some(blake3_of(&[
        lx[0].history_hash.as_ref().unwrap(),
        lx[0].daily_hash.as_ref().unwrap(),
    ]));
    let verdict = format!(
        "  documented value for the first day of (room, B): history = daily(B) = {}\n  blake3(history(A) || daily(A)), i.e. B chained onto entity A      = {}\n  X (A and B together) conforms: {}   is chained onto A: {}\n  Y (A then B) conforms: {}\n  Z (B then A) conforms: {}\n",
        hex_opt(&expected_b),
        hex_opt(&chained_on_a),
        lx[1].history_hash == expected_b,
        lx[1].history_hash == chained_on_a,
        ly[1].history_hash == expected_b,
        lz[1].history_hash == expected_b,
    );

    assert!(
        lx == ly && lx == lz,
        "C09 violated: same _node rows, but _daily_log of entity B depends on whether entity A of the same room was recomputed in the same run\n{}{}{}{}",
        dump("X (A and B in one compute)", &lx),
        dump("Y (A computed, then B computed)", &ly),
        dump("Z (B computed, then A computed)", &lz),
        verdict
    );
    assert_eq!(lx[1].history_hash, expected_b, "{}", verdict);
}

/// Consequence of (a) further down the chain: once a day has received a NULL history_hash, every
/// later day recomputed in the same run has a NULL history too (the chain is cut), whereas a
/// one-shot computation of the same three days chains all of them.
#[test]
fn f21_history_hash_three_days() {
    let entity = "1.0";

    // X: day 1 alone, then day 2 and day 3 together
    let x = new_db();
    insert_node(&x, &ROOM, entity, DAY1 + 1_000, 0xA1);
    mark_and_compute(&x, &[(&ROOM, entity, DAY1 + 1_000)]);
    insert_node(&x, &ROOM, entity, DAY2 + 2_000, 0xA2);
    insert_node(&x, &ROOM, entity, DAY2 + MS_PER_DAY + 3_000, 0xA3);
    mark_and_compute(
        &x,
        &[
            (&ROOM, entity, DAY2 + 2_000),
            (&ROOM, entity, DAY2 + MS_PER_DAY + 3_000),
        ],
    );

    // Y: the three days in one run
    let y = new_db();
    insert_node(&y, &ROOM, entity, DAY1 + 1_000, 0xA1);
    insert_node(&y, &ROOM, entity, DAY2 + 2_000, 0xA2);
    insert_node(&y, &ROOM, entity, DAY2 + MS_PER_DAY + 3_000, 0xA3);
    mark_and_compute(
        &y,
        &[
            (&ROOM, entity, DAY1 + 1_000),
            (&ROOM, entity, DAY2 + 2_000),
            (&ROOM, entity, DAY2 + MS_PER_DAY + 3_000),
        ],
    );

    let lx = read_log(&x);
    let ly = read_log(&y);
    assert_eq!(lx.len(), 3);
    controls(&lx, &ly);

    assert!(
        lx == ly,
        "C09 violated: same _node rows, but _daily_log differs between (day1 | day2+day3) (X) and (day1+day2+day3) (Y)\n{}{}",
        dump("X", &lx),
        dump("Y", &ly),
    );
}

/// Found while writing the tests above (not part of the original suspicion), call it (c).
///
/// The outer SELECT of `compute` is a live scan of the primary key of `_daily_log`
/// (EXPLAIN QUERY PLAN: "SCAN daily", no sorter; bundled SQLite 3.45.3) whose WHERE clause is a
/// correlated subquery evaluated row by row, while the loop UPDATEs the very rows it is scanning.
/// `_daily_log` is WITHOUT ROWID, so the UPDATE rewrites the entry under the read cursor and the
/// cursor returns the same row a second time, now with need_recompute = 0. The WHERE clause
/// filters that second visit out unless a later day of the same (room, entity) is still dirty.
/// When one is, the row goes through the "not need_recompute" branch with `previous_history`
/// holding its own freshly computed history, and its history is overwritten with
/// blake3(own history || own daily).
///
/// So a single `compute` over several dirty days of one (room, entity) does not even produce the
/// documented chain: the first day does not get history = daily.
#[test]
fn f21_dirty_day_followed_by_dirty_day_is_rehashed() {
    let entity = "1.0";
    let day3 = DAY2 + MS_PER_DAY;

    let y = new_db();
    insert_node(&y, &ROOM, entity, DAY1 + 1_000, 0xA1);
    insert_node(&y, &ROOM, entity, DAY2 + 2_000, 0xA2);
    insert_node(&y, &ROOM, entity, day3 + 3_000, 0xA3);
    mark_and_compute(
        &y,
        &[
            (&ROOM, entity, DAY1 + 1_000),
            (&ROOM, entity, DAY2 + 2_000),
            (&ROOM, entity, day3 + 3_000),
        ],
    );
    let ly = read_log(&y);
    assert_eq!(ly.len(), 3);
    controls(&ly, &ly);

    // the documented chain, from the stored daily hashes
    let d1 = ly[0].daily_hash.clone().unwrap();
    let d2 = ly[1].daily_hash.clone().unwrap();
    let h1 = d1.clone();
    let h2 = blake3_of(&[&h1, &d1]);
    let h3 = blake3_of(&[&h2, &d2]);
    let expected = vec![Some(h1), Some(h2), Some(h3)];
    let stored: Vec<Option<Vec<u8>>> = ly.iter().map(|r| r.history_hash.clone()).collect();

    let mut verdict = String::new();
    for i in 0..3 {
        verdict.push_str(&format!(
            "  day {}: documented history = {}  stored = {}  conforms: {}\n",
            i + 1,
            hex_opt(&expected[i]),
            hex_opt(&stored[i]),
            expected[i] == stored[i]
        ));
    }
    assert!(
        stored == expected,
        "C09 violated: three dirty days of one (room, entity) computed in ONE run do not follow history(1) = daily(1), history(n) = blake3(history(n-1) || daily(n-1))\n{}{}",
        dump("Y", &ly),
        verdict
    );
}

/// Re-chaining after the modification of an old day: X computes three days, then receives a
/// second row dated day 1 (a late synchronisation) and recomputes; Y receives the four rows at
/// once. Exercises the "not need_recompute" branch on the days that follow the dirty one.
#[test]
fn f21_old_day_update_rechains() {
    let entity = "1.0";
    let day3 = DAY2 + MS_PER_DAY;

    let x = new_db();
    insert_node(&x, &ROOM, entity, DAY1 + 1_000, 0xA1);
    insert_node(&x, &ROOM, entity, DAY2 + 2_000, 0xA2);
    insert_node(&x, &ROOM, entity, day3 + 3_000, 0xA3);
    mark_and_compute(
        &x,
        &[
            (&ROOM, entity, DAY1 + 1_000),
            (&ROOM, entity, DAY2 + 2_000),
            (&ROOM, entity, day3 + 3_000),
        ],
    );
    insert_node(&x, &ROOM, entity, DAY1 + 5_000, 0xA4);
    mark_and_compute(&x, &[(&ROOM, entity, DAY1 + 5_000)]);

    let y = new_db();
    insert_node(&y, &ROOM, entity, DAY1 + 1_000, 0xA1);
    insert_node(&y, &ROOM, entity, DAY2 + 2_000, 0xA2);
    insert_node(&y, &ROOM, entity, day3 + 3_000, 0xA3);
    insert_node(&y, &ROOM, entity, DAY1 + 5_000, 0xA4);
    mark_and_compute(
        &y,
        &[
            (&ROOM, entity, DAY1 + 1_000),
            (&ROOM, entity, DAY2 + 2_000),
            (&ROOM, entity, day3 + 3_000),
            (&ROOM, entity, DAY1 + 5_000),
        ],
    );

    let lx = read_log(&x);
    let ly = read_log(&y);
    assert_eq!(lx.len(), 3);
    assert_eq!(ly.len(), 3);
    for (rx, ry) in lx.iter().zip(ly.iter()) {
        assert_eq!(rx.need_recompute, Some(0));
        assert_eq!(ry.need_recompute, Some(0));
        assert_eq!(rx.date, ry.date);
        assert_eq!(rx.entry_number, ry.entry_number, "control: entry_number");
        assert_eq!(rx.daily_hash, ry.daily_hash, "control: daily_hash");
    }
    assert_eq!(lx[0].entry_number, 2);
    assert_eq!(
        lx[0].daily_hash,
        Some(blake3_of(&[&[0xA1u8; 64], &[0xA4u8; 64]])),
        "control: signatures are hashed in ascending order"
    );

    assert!(
        lx == ly,
        "C09 violated: same _node rows, but _daily_log differs between (3 days, then a late row on day 1) (X) and (everything at once) (Y)\n{}{}",
        dump("X", &lx),
        dump("Y", &ly),
    );
}

/// Another face of (c): the WHERE clause of the outer SELECT is evaluated lazily, row by row,
/// AFTER the loop has already cleared `need_recompute` on the dirty day. When the dirty day is an
/// old one and no later day is dirty, "min(date) where need_recompute = 1" is then NULL for the
/// following days of the group, so they are filtered out and are never re-chained: the
/// history_hash of the last day keeps its old value although an earlier day changed.
/// `RoomDefinitionLog::get` (what a peer sends to advertise the state of a room, and what
/// `synchronise_room_data` compares) therefore does not change when an old day is modified.
#[test]
fn f21_old_day_change_does_not_reach_last_history_hash() {
    use super::{RoomChangelog, RoomDefinitionLog};
    let entity = "1.0";
    let day3 = DAY2 + MS_PER_DAY;

    let x = new_db();
    RoomChangelog::log_room_definition(&ROOM, 100, &x).unwrap();
    insert_node(&x, &ROOM, entity, DAY1 + 1_000, 0xA1);
    insert_node(&x, &ROOM, entity, DAY2 + 2_000, 0xA2);
    insert_node(&x, &ROOM, entity, day3 + 3_000, 0xA3);
    mark_and_compute(
        &x,
        &[
            (&ROOM, entity, DAY1 + 1_000),
            (&ROOM, entity, DAY2 + 2_000),
            (&ROOM, entity, day3 + 3_000),
        ],
    );
    let before = read_log(&x);
    let def_before = RoomDefinitionLog::get(&ROOM, &x).unwrap().unwrap();

    // a late row dated day 1 arrives
    insert_node(&x, &ROOM, entity, DAY1 + 5_000, 0xA4);
    mark_and_compute(&x, &[(&ROOM, entity, DAY1 + 5_000)]);
    let after = read_log(&x);
    let def_after = RoomDefinitionLog::get(&ROOM, &x).unwrap().unwrap();

    // controls: day 1 really changed, days 2 and 3 kept their content
    assert_eq!(before.len(), 3);
    assert_eq!(after.len(), 3);
    assert_eq!(before[0].entry_number, 1);
    assert_eq!(after[0].entry_number, 2);
    assert_ne!(before[0].daily_hash, after[0].daily_hash);
    assert_eq!(before[1].daily_hash, after[1].daily_hash);
    assert_eq!(before[2].daily_hash, after[2].daily_hash);
    for r in &after {
        assert_eq!(r.need_recompute, Some(0));
    }
    assert_eq!(def_before.last_data_date, Some(day3));
    assert_eq!(def_after.last_data_date, Some(day3));
    assert_eq!(def_after.history_hash, after[2].history_hash);

    assert!(
        before[2].history_hash != after[2].history_hash
            && def_before.history_hash != def_after.history_hash,
        "C09 violated: the content of day 1 changed but the history_hash of the last day (the value advertised by RoomDefinitionLog) did not: the chain does not summarise the earlier days\n{}{}  RoomDefinitionLog.history_hash before = {}\n  RoomDefinitionLog.history_hash after  = {}\n",
        dump("X before the late row", &before),
        dump("X after the late row", &after),
        hex_opt(&def_before.history_hash),
        hex_opt(&def_after.history_hash),
    );
}
