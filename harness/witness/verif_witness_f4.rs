//! Witness for F4: `room::load_auth_from_json` (used when the rooms are reloaded from storage at startup)
//! builds `EntityRight{..}` directly and skips the normalisation done by `EntityRight::new`
//! (`mutate_all:true` implies `mutate_self:true`) that is applied on the live path
//! (`entity_right_from_json`) and on the synchronisation path (`EntityRightNode::parse`).
//!
//! Specification: the authorisation decision for (user, entity, date, right) is a function of the stored
//! room definition only; it must be the same before and after a restart.

use std::{fs, path::PathBuf};

use crate::{
    configuration::Configuration,
    database::{
        graph_database::GraphDatabaseService,
        query_language::parameter::{Parameters, ParametersAdd},
        room::{load_auth_from_json, RightType},
    },
    event_service::EventService,
    security::{base64_encode, new_uid, random32, uid_encode},
};

const DATA_PATH: &str = "test_data/database/verif_witness_f4/";
fn init_database_path() {
    let path: PathBuf = DATA_PATH.into();
    fs::create_dir_all(&path).unwrap();
}

#[tokio::test(flavor = "multi_thread")]
async fn f4_same_decision_before_and_after_restart() {
    init_database_path();
    let data_model = "{Person{ name:String }}";

    let secret = random32();
    let path: PathBuf = DATA_PATH.into();

    let room_id = {
        let (app, verifying_key, _) = GraphDatabaseService::start(
            "witness f4",
            data_model,
            &secret,
            &random32(),
            path.clone(),
            &Configuration::default(),
            EventService::new(),
        )
        .await
        .unwrap();

        let user_id = base64_encode(&verifying_key);

        let mut param = Parameters::default();
        param.add("user_id", user_id.clone()).unwrap();
        let room = app
            .mutate_raw(
                r#"mutate {
                    sys.Room{
                        admin: [{
                            verif_key:$user_id
                        }]
                        authorisations:[{
                            name:"admin"
                            rights:[{
                                entity:"Person"
                                mutate_self:false
                                mutate_all:true
                            }]
                        }]
                    }
                }"#,
                Some(param),
            )
            .await
            .unwrap();

        let room_insert = &room.mutate_entities[0];
        let room_id = base64_encode(&room_insert.node_to_mutate.id);

        //live decision: the user can insert its own row
        let mut param = Parameters::default();
        param.add("room_id", room_id.clone()).unwrap();
        app.mutate_raw(
            r#"mutate {
                Person{
                    room_id: $room_id
                    name: "before restart"
                }
            }"#,
            Some(param),
        )
        .await
        .expect("live: mutate_all:true grants the right to insert an own row");
        room_id
    };

    //restart on the same data
    let (app, _, _) = GraphDatabaseService::start(
        "witness f4",
        data_model,
        &secret,
        &random32(),
        path,
        &Configuration::default(),
        EventService::new(),
    )
    .await
    .unwrap();

    let mut param = Parameters::default();
    param.add("room_id", room_id.clone()).unwrap();
    let res = app
        .mutate_raw(
            r#"mutate {
                Person{
                    room_id: $room_id
                    name: "after restart"
                }
            }"#,
            Some(param),
        )
        .await;

    assert!(
        res.is_ok(),
        "F4: the insertion of an own row was accepted before the restart and is refused after the restart: {}",
        res.err().unwrap()
    );
}

///
/// function level: the loader and EntityRight::new must agree
///
#[test]
fn f4_load_auth_from_json_normalises_rights() {
    let json = format!(
        r#"{{
            "id":"{}",
            "mdate":10,
            "users":[],
            "user_admin":[],
            "rights":[{{"mdate":10,"entity":"Person","mutate_self":false,"mutate_all":true}}]
        }}"#,
        uid_encode(&new_uid())
    );
    let value: serde_json::Value = serde_json::from_str(&json).unwrap();
    let auth = load_auth_from_json(&value).unwrap();
    assert!(auth.can("Person", 10, &RightType::MutateAll));
    assert!(
        auth.can("Person", 10, &RightType::MutateSelf),
        "F4: a right loaded from storage with mutate_all:true does not grant mutate_self"
    );
}
