//!
//! Demonstration for property C03 (synchronisation converges).
//!
//! Two database services are wired back to back over in-memory channels: the puller runs the real
//! LocalPeerService / QueryService, the source runs the real InboundQueryService.
//!
//! History: a row known by both peers gets a reference on peer A, then one of its scalar fields is updated on A,
//! both before B synchronises again. After a full round of synchronisations B must return the same query results as A,
//! including the reference.
//!
use std::{
    collections::HashSet,
    fs,
    path::PathBuf,
    sync::{atomic::AtomicBool, Arc},
    time::Duration,
};

use tokio::sync::{broadcast, mpsc, Mutex};

use crate::{
    configuration::Configuration,
    database::{
        daily_log::DailyLog,
        graph_database::GraphDatabaseService,
        query_language::parameter::{Parameters, ParametersAdd},
        system_entities::{AllowedPeer, Peer},
    },
    discret::DiscretServices,
    event_service::{Event, EventService},
    network::{peer_manager::TokenType, ConnectionInfo},
    peer_connection_service::{PeerConnectionMessage, PeerConnectionService},
    security::{base64_encode, new_uid, random32, uid_decode, HardwareFingerprint, Uid},
    signature_verification_service::SignatureVerificationService,
};

use super::{
    peer_inbound_service::{LocalPeerService, QueryService},
    peer_outbound_service::{InboundQueryService, RemotePeerHandle},
    room_locking_service::RoomLockService,
    Answer, LocalEvent, QueryProtocol, RemoteEvent,
};

const DATA_MODEL: &str = "{
    Person{
        name: String,
        pets: [Pet] nullable,
    }
    Pet{
        name: String,
    }
}";

struct TestPeer {
    services: DiscretServices,
    verifying_key: Vec<u8>,
}

fn test_folder(name: &str) -> PathBuf {
    let path: PathBuf = format!(
        "test_data/tmp/seeded_probe_{}_{}/",
        name,
        base64_encode(&new_uid())
    )
    .into();
    fs::create_dir_all(&path).unwrap();
    path
}

async fn start_peer(name: &str) -> TestPeer {
    let events = EventService::new();
    let (database, verifying_key, _) = GraphDatabaseService::start(
        "seeded demo app",
        DATA_MODEL,
        &random32(),
        &random32(),
        test_folder(name),
        &Configuration::default(),
        events.clone(),
    )
    .await
    .unwrap();
    TestPeer {
        services: DiscretServices {
            events,
            database,
            signature_verification: SignatureVerificationService::start(2),
        },
        verifying_key,
    }
}

/// a PeerConnectionService without network: the messages are dropped
fn dummy_peer_service() -> PeerConnectionService {
    let (sender, mut receiver) = mpsc::channel::<PeerConnectionMessage>(32);
    tokio::spawn(async move { while receiver.recv().await.is_some() {} });
    PeerConnectionService { sender }
}

async fn room_log(peer: &TestPeer, room: Uid) -> Vec<DailyLog> {
    let mut receiver = peer.services.database.get_room_log(room).await;
    let mut res = Vec::new();
    while let Some(log) = receiver.recv().await {
        res.append(&mut log.unwrap());
    }
    res
}

/// wait until the daily logs flagged by the last writes are recomputed
async fn wait_daily_log(peer: &TestPeer, room: Uid) {
    for _ in 0..500 {
        let logs = room_log(peer, room).await;
        if logs.iter().all(|l| !l.need_recompute) {
            return;
        }
        tokio::time::sleep(Duration::from_millis(10)).await;
    }
    panic!("daily log not computed");
}

///
/// 'puller' opens a connection to 'source' and synchronises the rooms it shares with it,
/// with the library's LocalPeerService (puller side) and InboundQueryService (source side)
///
async fn pull(puller: &TestPeer, source: &TestPeer, room: Uid) {
    let circuit_id = random32();
    let conn_id = new_uid();
    let fingerprint = HardwareFingerprint {
        id: new_uid(),
        name: "test".to_string(),
    };
    let peer_service = dummy_peer_service();

    let (query_sender, query_receiver) = mpsc::channel::<QueryProtocol>(10);
    let (answer_sender, answer_receiver) = mpsc::channel::<Answer>(10);
    //events sent by the puller to the source: ignored
    let (event_sender, mut sent_events) = mpsc::channel::<RemoteEvent>(10);
    tokio::spawn(async move { while sent_events.recv().await.is_some() {} });
    //events sent by the source to the puller: driven by the test
    let (remote_event_sender, remote_event_receiver) = mpsc::channel::<RemoteEvent>(10);
    let (local_event_sender, local_event_receiver) = broadcast::channel::<LocalEvent>(16);

    //source side: answers the queries of the puller
    let _source_inbound = InboundQueryService::start(
        fingerprint.clone(),
        circuit_id,
        conn_id,
        RemotePeerHandle {
            allowed_room: HashSet::new(),
            db: source.services.database.clone(),
            verifying_key: source.verifying_key.clone(),
            reply: answer_sender,
        },
        query_receiver,
        peer_service.clone(),
        Arc::new(Mutex::new(puller.verifying_key.clone())),
        Arc::new(AtomicBool::new(true)),
    );

    //puller side
    let (_unused_query_sender, unused_query_receiver) = mpsc::channel::<QueryProtocol>(1);
    let (unused_answer_sender, _unused_answer_receiver) = mpsc::channel::<Answer>(1);
    let puller_inbound = InboundQueryService::start(
        fingerprint,
        circuit_id,
        conn_id,
        RemotePeerHandle {
            allowed_room: HashSet::new(),
            db: puller.services.database.clone(),
            verifying_key: puller.verifying_key.clone(),
            reply: unused_answer_sender,
        },
        unused_query_receiver,
        peer_service.clone(),
        Arc::new(Mutex::new(source.verifying_key.clone())),
        Arc::new(AtomicBool::new(true)),
    );

    let mut events = puller.services.events.subcribe().await;

    let query_service = QueryService::start(query_sender, answer_receiver);
    LocalPeerService::start(
        remote_event_receiver,
        local_event_receiver,
        circuit_id,
        ConnectionInfo {
            endpoint_id: new_uid(),
            remote_id: new_uid(),
            conn_id,
            meeting_token: [0; crate::security::MEETING_TOKEN_SIZE],
            peer_verifying_key: source.verifying_key.clone(),
        },
        puller.verifying_key.clone(),
        TokenType::AllowedPeer(AllowedPeer {
            peer: Peer {
                id: "".to_string(),
                verifying_key: base64_encode(&source.verifying_key),
            },
            meeting_token: "".to_string(),
        }),
        Arc::new(Mutex::new(Vec::new())),
        Arc::new(AtomicBool::new(true)),
        RoomLockService::start(4),
        query_service,
        event_sender,
        peer_service,
        puller_inbound,
        &puller.services,
    );

    //the source tells that it is ready: the puller asks for the room list and synchronises every room
    remote_event_sender.send(RemoteEvent::Ready).await.unwrap();

    let room_str = base64_encode(&room);
    let wait = async {
        loop {
            match events.recv().await {
                Ok(Event::RoomSynchronized(r)) => {
                    if r.eq(&room_str) {
                        break;
                    }
                }
                Ok(_) => {}
                Err(broadcast::error::RecvError::Lagged(_)) => {}
                Err(e) => panic!("event channel {}", e),
            }
        }
    };
    tokio::time::timeout(Duration::from_secs(20), wait)
        .await
        .expect("the room synchronisation did not finish");

    wait_daily_log(puller, room).await;
    //closes the connection
    drop(remote_event_sender);
    drop(local_event_sender);
    tokio::time::sleep(Duration::from_millis(20)).await;
}

const PERSON_QUERY: &str = "query q{
    Person(order_by(name asc)){
        id
        name
        mdate
        pets(order_by(name asc)){
            id
            name
        }
    }
}";

const PET_QUERY: &str = "query q{
    Pet(order_by(name asc)){
        id
        name
        mdate
    }
}";

async fn content(peer: &TestPeer) -> String {
    let persons = peer
        .services
        .database
        .query(PERSON_QUERY, None)
        .await
        .unwrap();
    let pets = peer.services.database.query(PET_QUERY, None).await.unwrap();
    format!("{}\n{}", persons, pets)
}


async fn make_room(a:&TestPeer,b:&TestPeer)->Uid{
    let mut param = Parameters::default();
    param.add("a", base64_encode(&a.verifying_key)).unwrap();
    param.add("b", base64_encode(&b.verifying_key)).unwrap();
    let room = a.services.database.mutate_raw(
            r#"mutate mut {
                sys.Room{
                    admin: [{ verif_key:$a }]
                    authorisations:[{
                        name:"members"
                        rights:[{ entity:"Person" mutate_self:true mutate_all:true },{ entity:"Pet" mutate_self:true mutate_all:true }]
                        users: [{ verif_key:$a },{ verif_key:$b }]
                    }]
                }
            }"#, Some(param)).await.unwrap();
    room.mutate_entities[0].node_to_mutate.id
}

#[tokio::test(flavor = "multi_thread")]
async fn seeded_probe_concurrent_edge_and_update() {
    let a = start_peer("a").await;
    let b = start_peer("b").await;
    let room_uid = make_room(&a,&b).await;
    let room_id = base64_encode(&room_uid);
    let mut param = Parameters::default();
    param.add("room_id", room_id.clone()).unwrap();
    let res = a.services.database.mutate_raw(
            r#"mutate mut {
                Person{ room_id: $room_id name: "alice" }
                Pet{ room_id: $room_id name: "kiki" }
            }"#, Some(param)).await.unwrap();
    let person_id = base64_encode(&res.mutate_entities[0].node_to_mutate.id);
    let pet_id = base64_encode(&res.mutate_entities[1].node_to_mutate.id);
    uid_decode(&person_id).unwrap();
    wait_daily_log(&a, room_uid).await;
    pull(&b, &a, room_uid).await;
    pull(&a, &b, room_uid).await;
    assert_eq!(content(&a).await, content(&b).await);

    tokio::time::sleep(Duration::from_millis(5)).await;
    let mut param = Parameters::default();
    param.add("person_id", person_id.clone()).unwrap();
    param.add("pet_id", pet_id.clone()).unwrap();
    a.services.database.mutate_raw(
            r#"mutate mut { Person{ id: $person_id pets: [{id: $pet_id}] } }"#, Some(param)).await.unwrap();
    tokio::time::sleep(Duration::from_millis(5)).await;
    let mut param = Parameters::default();
    param.add("person_id", person_id.clone()).unwrap();
    b.services.database.mutate_raw(
            r#"mutate mut { Person{ id: $person_id name: "alice cooper" } }"#, Some(param)).await.unwrap();
    wait_daily_log(&a, room_uid).await;
    wait_daily_log(&b, room_uid).await;
    for _ in 0..3 {
        pull(&b, &a, room_uid).await;
        pull(&a, &b, room_uid).await;
    }
    println!("A: {}", content(&a).await);
    println!("B: {}", content(&b).await);
    assert_eq!(content(&a).await, content(&b).await, "PROBE1 diverged");
}

#[tokio::test(flavor = "multi_thread")]
async fn seeded_probe_concurrent_deletion() {
    let a = start_peer("a").await;
    let b = start_peer("b").await;
    let room_uid = make_room(&a,&b).await;
    let room_id = base64_encode(&room_uid);
    let mut param = Parameters::default();
    param.add("room_id", room_id.clone()).unwrap();
    let res = a.services.database.mutate_raw(
            r#"mutate mut {
                Person{ room_id: $room_id name: "alice" }
                Pet{ room_id: $room_id name: "kiki" }
            }"#, Some(param)).await.unwrap();
    let person_id = base64_encode(&res.mutate_entities[0].node_to_mutate.id);
    wait_daily_log(&a, room_uid).await;
    pull(&b, &a, room_uid).await;
    pull(&a, &b, room_uid).await;
    assert_eq!(content(&a).await, content(&b).await);

    tokio::time::sleep(Duration::from_millis(5)).await;
    let mut param = Parameters::default();
    param.add("id", person_id.clone()).unwrap();
    a.services.database.delete("delete {Person{$id}}", Some(param)).await.unwrap();
    tokio::time::sleep(Duration::from_millis(5)).await;
    let mut param = Parameters::default();
    param.add("id", person_id.clone()).unwrap();
    b.services.database.delete("delete {Person{$id}}", Some(param)).await.unwrap();
    wait_daily_log(&a, room_uid).await;
    wait_daily_log(&b, room_uid).await;
    for _ in 0..3 {
        pull(&a, &b, room_uid).await;
        pull(&b, &a, room_uid).await;
    }
    let la = room_log(&a, room_uid).await;
    let lb = room_log(&b, room_uid).await;
    let fa: Vec<_> = la.iter().map(|l| (l.entity.clone(), l.entry_number, l.daily_hash.clone())).collect();
    let fb: Vec<_> = lb.iter().map(|l| (l.entity.clone(), l.entry_number, l.daily_hash.clone())).collect();
    println!("A: {:?}", fa);
    println!("B: {:?}", fb);
    assert_eq!(fa, fb, "PROBE2 diverged");
}
