//! Witness for F17: `RoomAuthorisations::validate_entity_mutation` returns early when the
//! parent row is unchanged (`node_to_mutate.node == None`) and skips the authorisation check
//! of the nested entity mutations stored in `sub_nodes`.
//!
//! Specification: every row written by a mutation must be authorised by the room it belongs to.

use std::{collections::HashMap, fs, path::PathBuf};

use crate::{
    configuration::Configuration,
    database::{
        authorisation_service::RoomAuthorisations,
        graph_database::GraphDatabaseService,
        mutation_query::{InsertEntity, NodeToMutate},
        node::Node,
        query_language::parameter::{Parameters, ParametersAdd},
        room::{Authorisation, EntityRight, Room, User},
    },
    date_utils::now,
    event_service::EventService,
    security::{base64_encode, new_uid, random32, Ed25519SigningKey, SigningKey},
};

const DATA_PATH: &str = "test_data/database/verif_witness_f17/";
fn init_database_path() {
    let path: PathBuf = DATA_PATH.into();
    fs::create_dir_all(&path).unwrap();
}

///
/// End to end, through the public mutation API.
/// The user loses the right to mutate `Child` in the room. A direct update of the child row is refused,
/// the same update nested in an otherwise unchanged `Parent{id}` mutation must be refused too.
///
#[tokio::test(flavor = "multi_thread")]
async fn f17_nested_update_under_unchanged_parent_is_authorised() {
    init_database_path();
    let data_model = "
    {
        Parent{
            name:String,
            child:Child
        }

        Child{
            name:String,
        }
    }";

    let secret = random32();
    let path: PathBuf = DATA_PATH.into();
    let (app, verifying_key, _) = GraphDatabaseService::start(
        "witness f17",
        data_model,
        &secret,
        &random32(),
        path,
        &Configuration::default(),
        EventService::new(),
    )
    .await
    .unwrap();

    let user_id = base64_encode(&verifying_key);

    let mut param = Parameters::default();
    param.add("user_id", user_id.clone()).unwrap();
    let room = app
        .mutate_raw(
            r#"mutate {
                sys.Room{
                    admin: [{
                        verif_key:$user_id
                    }]
                    authorisations:[{
                        name:"admin"
                        rights:[{
                            entity:"Parent"
                            mutate_self:true
                            mutate_all:true
                        },{
                            entity:"Child"
                            mutate_self:true
                            mutate_all:true
                        }]
                    }]
                }
            }"#,
            Some(param),
        )
        .await
        .unwrap();

    let room_insert = &room.mutate_entities[0];
    let room_id = base64_encode(&room_insert.node_to_mutate.id);
    let authorisation_insert = &room_insert.sub_nodes.get("authorisations").unwrap()[0];
    let auth_id = base64_encode(&authorisation_insert.node_to_mutate.id);

    let mut param = Parameters::default();
    param.add("room_id", room_id.clone()).unwrap();
    let inserted = app
        .mutate_raw(
            r#"mutate {
                Parent{
                    room_id: $room_id
                    name: "parent"
                    child: {
                        name: "original"
                    }
                }
            }"#,
            Some(param),
        )
        .await
        .expect("the user has every rights on Parent and Child");

    let parent_insert = &inserted.mutate_entities[0];
    let pid = base64_encode(&parent_insert.node_to_mutate.id);
    let child_insert = &parent_insert.sub_nodes.get("child").unwrap()[0];
    let cid = base64_encode(&child_insert.node_to_mutate.id);
    assert_eq!(
        child_insert.node_to_mutate.room_id,
        Some(room_insert.node_to_mutate.id),
        "the child row belongs to the room"
    );

    //remove every rights on Child
    let mut param = Parameters::default();
    param.add("room_id", room_id.clone()).unwrap();
    param.add("auth_id", auth_id.clone()).unwrap();
    app.mutate_raw(
        r#"mutate {
            sys.Room{
                id:$room_id
                authorisations:[{
                    id:$auth_id
                    rights:[{
                        entity:"Child"
                        mutate_self:false
                        mutate_all:false
                    }]
                }]
            }
        }"#,
        Some(param),
    )
    .await
    .expect("remove the rights on Child");

    //control: the direct update of the child row is refused
    let mut param = Parameters::default();
    param.add("cid", cid.clone()).unwrap();
    app.mutate_raw(
        r#"mutate {
            Child{
                id:$cid
                name: "changed directly"
            }
        }"#,
        Some(param),
    )
    .await
    .expect_err("control: direct update of Child is refused");

    //witness: the same update nested under an unchanged parent
    let mut param = Parameters::default();
    param.add("pid", pid.clone()).unwrap();
    param.add("cid", cid.clone()).unwrap();
    let nested = app
        .mutate_raw(
            r#"mutate {
                Parent{
                    id:$pid
                    child: {
                        id:$cid
                        name: "changed"
                    }
                }
            }"#,
            Some(param),
        )
        .await;

    let result = app
        .query(
            "query q{
                Child{
                    name
                }
            }",
            None,
        )
        .await
        .unwrap();

    assert!(
        nested.is_err(),
        "F17: nested update of Child under an unchanged Parent was accepted although the user has no right on Child in the room; Child rows are now: {}",
        result
    );
    assert_eq!(result, "{\n\"Child\":[{\"name\":\"original\"}]\n}");
}

///
/// Function level: `validate_entity_mutation` on a hand built InsertEntity.
/// The local user is not a member of the room at all.
///
#[test]
fn f17_validate_entity_mutation_checks_sub_nodes_of_unchanged_parent() {
    let date = now();
    let room_id = new_uid();

    let owner = User {
        verifying_key: random32().to_vec(),
        date: 0,
        enabled: true,
    };
    let mut auth = Authorisation {
        id: new_uid(),
        ..Default::default()
    };
    auth.add_user(owner.clone()).unwrap();
    auth.add_right(EntityRight::new(0, "*".to_string(), true, true))
        .unwrap();
    let mut room = Room {
        id: room_id,
        ..Default::default()
    };
    room.add_admin_user(owner.clone()).unwrap();
    room.add_auth(auth).unwrap();

    let mut room_auth = RoomAuthorisations {
        signing_key: Ed25519SigningKey::new(),
        rooms: HashMap::new(),
        max_node_size: 256 * 1024,
    };
    room_auth.add_room(room);
    //the local user is unknown to the room
    let intruder = room_auth.signing_key.export_verifying_key();

    let old_child = Node {
        room_id: Some(room_id),
        _entity: "1".to_string(),
        _json: Some("{\"32\":\"original\"}".to_string()),
        verifying_key: owner.verifying_key.clone(),
        mdate: date - 1000,
        cdate: date - 1000,
        ..Default::default()
    };
    let mut new_child = old_child.clone();
    new_child._json = Some("{\"32\":\"changed\"}".to_string());
    new_child.mdate = date;

    let mut child = InsertEntity {
        name: "child".to_string(),
        node_to_mutate: NodeToMutate {
            id: old_child.id,
            date,
            entity: "Child".to_string(),
            room_id: Some(room_id),
            node: Some(new_child),
            old_node: Some(old_child),
            ..Default::default()
        },
        ..Default::default()
    };

    //control: the child mutation alone is refused
    room_auth
        .validate_entity_mutation(&mut child, &intruder)
        .expect_err("control: the child mutation alone is refused");

    // parent row given by id with nothing changed: get_mutate_query sets node to None
    // and still puts the child mutation in sub_nodes
    let mut parent = InsertEntity {
        name: "Parent".to_string(),
        node_to_mutate: NodeToMutate {
            id: new_uid(),
            date,
            entity: "Parent".to_string(),
            room_id: Some(room_id),
            node: None,
            old_node: Some(Node {
                room_id: Some(room_id),
                _entity: "0".to_string(),
                verifying_key: owner.verifying_key.clone(),
                ..Default::default()
            }),
            ..Default::default()
        },
        ..Default::default()
    };
    parent.sub_nodes.insert("child".to_string(), vec![child]);

    let res = room_auth.validate_entity_mutation(&mut parent, &intruder);
    assert!(
        res.is_err(),
        "F17: validate_entity_mutation accepted a child mutation nested under an unchanged parent for a user that is not a member of the room"
    );
}
