//! Witness for F31c (properties C02/C07).
//!
//! The references that DEFINE a room (source entity sys.Room, sys.Authorisation) may only change through a
//! room definition (`add_room_node`), never through the ordinary synchronisation paths; accepting data from
//! a peer never removes an existing admin, user, right or group entry of a room.
//!
//! The ordinary row path and the ordinary reference path refuse the room-definition entities. These tests drive
//! the reference DELETION path (`delete_edges`, exactly what `synchronise_day` does with the edge deletion log
//! of a peer after `verify_edge_log`) with an `EdgeDeletionEntry` signed by an ordinary member M that holds the
//! all-rows right through a `*` right.
#[cfg(test)]
mod tests {

    use std::{fs, path::PathBuf};

    use crate::{
        configuration::Configuration,
        database::{
            edge::{Edge, EdgeDeletionEntry},
            graph_database::GraphDatabaseService,
            node::NodeDeletionEntry,
            query_language::parameter::{Parameters, ParametersAdd},
            room_node::RoomNode,
            system_entities::{
                AUTHORISATION_ENT_SHORT, AUTH_RIGHTS_FIELD_SHORT, AUTH_USER_FIELD_SHORT,
                ROOM_ADMIN_FIELD_SHORT, ROOM_ENT_SHORT, USER_AUTH_ENT_SHORT,
            },
        },
        date_utils::now,
        event_service::EventService,
        security::{base64_encode, random32, Ed25519SigningKey, SigningKey, Uid},
    };

    const DATA_PATH: &str = "test_data/database/verif_witness_f31c/";
    fn init_database_path() {
        let path: PathBuf = DATA_PATH.into();
        fs::create_dir_all(&path).unwrap();
    }

    const DATA_MODEL: &str = "{Person{ name:String, parents:[Person] }}";

    struct SetUp {
        app: GraphDatabaseService,
        room_id: Uid,
        v_key: Vec<u8>,
        m_key: Ed25519SigningKey,
        stranger: Ed25519SigningKey,
    }

    ///
    /// instance V creates room R: V is the only admin, M is an ordinary user of a group holding the wildcard right
    ///
    async fn set_up(name: &str) -> SetUp {
        init_database_path();
        let path: PathBuf = DATA_PATH.into();
        let (app, verifying_key, _) = GraphDatabaseService::start(
            name,
            DATA_MODEL,
            &random32(),
            &random32(),
            path,
            &Configuration::default(),
            EventService::new(),
        )
        .await
        .unwrap();
        let v_id = base64_encode(&verifying_key);

        //the member M: a second key, not an admin, not a user_admin
        let m_key = Ed25519SigningKey::create_from(&[31u8; 32]);
        let m_id = base64_encode(&m_key.export_verifying_key());
        assert_ne!(v_id, m_id);

        let stranger = Ed25519SigningKey::create_from(&[32u8; 32]);

        let mut param = Parameters::default();
        param.add("v_id", v_id.clone()).unwrap();
        param.add("m_id", m_id.clone()).unwrap();
        let room = app
            .mutate_raw(
                r#"mutate mut {
                    sys.Room{
                        admin: [{
                            verif_key:$v_id
                        }]
                        authorisations:[{
                            name:"members"
                            rights:[{
                                entity:"*"
                                mutate_self:true
                                mutate_all:true
                            }]
                            users:[{
                                verif_key:$m_id
                            }]
                        }]
                    }
                }"#,
                Some(param),
            )
            .await
            .unwrap();
        let room_id: Uid = room.mutate_entities[0].node_to_mutate.id;
        SetUp {
            app,
            room_id,
            v_key: verifying_key,
            m_key,
            stranger,
        }
    }

    async fn room_node(app: &GraphDatabaseService, room_id: Uid) -> RoomNode {
        app.get_room_node(room_id)
            .await
            .unwrap()
            .expect("the room definition is stored")
    }

    async fn stored_edges(app: &GraphDatabaseService, room_id: Uid, src: Uid) -> Vec<Edge> {
        let mut recv = app.get_edges(room_id, vec![(src, 0)]).await;
        let mut res = Vec::new();
        while let Some(batch) = recv.recv().await {
            res.append(&mut batch.unwrap());
        }
        res
    }

    async fn edge_deletion_log(
        app: &GraphDatabaseService,
        room_id: Uid,
        entity: &str,
        date: i64,
    ) -> Vec<EdgeDeletionEntry> {
        let mut recv = app
            .get_room_edge_deletion_log(room_id, entity.to_string(), date)
            .await;
        let mut res = Vec::new();
        while let Some(batch) = recv.recv().await {
            res.append(&mut batch.unwrap());
        }
        res
    }

    async fn node_deletion_log(
        app: &GraphDatabaseService,
        room_id: Uid,
        entity: &str,
        date: i64,
    ) -> Vec<NodeDeletionEntry> {
        let mut recv = app
            .get_room_node_deletion_log(room_id, entity.to_string(), date)
            .await;
        let mut res = Vec::new();
        while let Some(batch) = recv.recv().await {
            res.append(&mut batch.unwrap());
        }
        res
    }

    const CHILD_QUERY: &str = r#"query q{
        Person(name="child", nullable(parents)){
            name
            parents{ name }
        }
    }"#;

    ///
    /// control (a): an entry signed by M for an ordinary reference (Person.parents) of an ordinary row of R, created by V,
    /// IS applied: M is a member holding the all-rows right and delete_edges is a sound model of what synchronise_day does
    ///
    async fn control_ordinary_reference_is_deleted(s: &SetUp) {
        let app = &s.app;
        let mut param = Parameters::default();
        param.add("room_id", base64_encode(&s.room_id)).unwrap();
        let mutat = app
            .mutate_raw(
                r#"mutate mut {
                    Person{
                        room_id: $room_id
                        name: "child"
                        parents:[{name:"father"}]
                    }
                }"#,
                Some(param),
            )
            .await
            .expect("control: the admin can write Person rows in its room");
        let child_id: Uid = mutat.mutate_entities[0].node_to_mutate.id;

        let res = app.query(CHILD_QUERY, None).await.unwrap();
        assert!(
            res.contains("\"parents\":[{\"name\":\"father\"}]"),
            "control: the reference is visible in a query: {}",
            res
        );

        let edges = stored_edges(app, s.room_id, child_id).await;
        assert_eq!(edges.len(), 1, "control: one Person.parents reference");
        let edge = &edges[0];
        assert_eq!(
            edge.verifying_key, s.v_key,
            "control: the reference was created by V"
        );

        let deletion_date = std::cmp::max(now(), edge.cdate + 1);
        let entry = EdgeDeletionEntry::build(s.room_id, edge, deletion_date, &s.m_key);
        entry.verify().unwrap();
        app.delete_edges(vec![entry]).await.unwrap();

        let edges = stored_edges(app, s.room_id, child_id).await;
        assert!(
            edges.is_empty(),
            "control: an ordinary reference deletion signed by M must be applied in R"
        );
        let res = app.query(CHILD_QUERY, None).await.unwrap();
        assert!(
            res.contains("child") && !res.contains("father"),
            "control: the reference disappeared from the query: {}",
            res
        );
    }

    #[tokio::test(flavor = "multi_thread")]
    async fn f31c_admin_reference_deleted_through_the_deletion_log() {
        let s = set_up("verif witness f31c admin").await;
        let app = &s.app;
        let room_id = s.room_id;

        control_ordinary_reference_is_deleted(&s).await;

        //the room definition that every member is served
        let before = room_node(app, room_id).await;
        before.check_consistency().unwrap();
        assert_eq!(before.admin_edges.len(), 1, "control: one admin reference");
        assert_eq!(before.admin_nodes.len(), 1, "control: one admin row");
        let admin_edge = before.admin_edges[0].clone();
        assert_eq!(admin_edge.src, room_id);
        assert_eq!(admin_edge.src_entity, ROOM_ENT_SHORT);
        assert_eq!(admin_edge.label, ROOM_ADMIN_FIELD_SHORT);
        assert_eq!(admin_edge.dest, before.admin_nodes[0].node.id);
        assert_eq!(
            admin_edge.verifying_key, s.v_key,
            "control: the admin reference is signed by V"
        );

        //control (b): an entry for the admin reference signed by a stranger with no right in R is not applied
        let deletion_date = std::cmp::max(now(), admin_edge.cdate + 1);
        let entry = EdgeDeletionEntry::build(room_id, &admin_edge, deletion_date, &s.stranger);
        entry.verify().unwrap();
        app.delete_edges(vec![entry]).await.unwrap();
        let after_stranger = room_node(app, room_id).await;
        assert_eq!(
            after_stranger.admin_edges.len(),
            1,
            "control: a stranger cannot delete anything"
        );
        assert!(
            edge_deletion_log(app, room_id, ROOM_ENT_SHORT, deletion_date)
                .await
                .is_empty(),
            "control: a refused deletion is not logged"
        );

        //the attack: the same entry signed by M
        let deletion_date = std::cmp::max(now(), admin_edge.cdate + 1);
        assert!(deletion_date > admin_edge.cdate);
        let entry = EdgeDeletionEntry::build(room_id, &admin_edge, deletion_date, &s.m_key);
        assert!(entry.verify().is_ok(), "the entry of M has a valid signature");
        assert_eq!(entry.room_id, room_id);
        assert_eq!(entry.src, room_id);
        assert_eq!(entry.src_entity, ROOM_ENT_SHORT);
        app.delete_edges(vec![entry]).await.unwrap();

        let after = room_node(app, room_id).await;
        let log = edge_deletion_log(app, room_id, ROOM_ENT_SHORT, deletion_date).await;

        assert!(
            after.admin_edges.len() == 1
                && after.admin_edges[0].dest == admin_edge.dest
                && after.admin_edges[0].signature == admin_edge.signature,
            "C07 violated: an admin reference of a room definition was deleted through the ordinary deletion log; \
            get_room_node now has {} admin reference(s) and {} admin row(s) (before: 1 and 1), \
            and {} entry(ies) for sys.Room is/are served to peers in the edge deletion log of the room",
            after.admin_edges.len(),
            after.admin_nodes.len(),
            log.len()
        );
        assert_eq!(
            after.admin_nodes.len(),
            1,
            "C07 violated: the room definition served to peers has lost its admin row"
        );
        assert_eq!(
            after.admin_nodes[0].node._signature,
            before.admin_nodes[0].node._signature
        );
        assert!(
            after.check_consistency().is_ok(),
            "C07 violated: the room definition served to peers is not consistent any more"
        );
        assert!(
            log.is_empty(),
            "C07 violated: a deletion of an admin reference is stored in the edge deletion log served to peers"
        );
    }

    #[tokio::test(flavor = "multi_thread")]
    async fn f31c_group_reference_deleted_through_the_deletion_log() {
        let s = set_up("verif witness f31c group").await;
        let app = &s.app;
        let room_id = s.room_id;

        control_ordinary_reference_is_deleted(&s).await;

        let before = room_node(app, room_id).await;
        before.check_consistency().unwrap();
        assert_eq!(before.auth_nodes.len(), 1, "control: one group");
        let group = &before.auth_nodes[0];
        let group_id = group.node.id;
        assert_eq!(group.user_edges.len(), 1, "control: one user reference");
        assert_eq!(group.user_nodes.len(), 1, "control: one user row");
        assert_eq!(group.right_edges.len(), 1, "control: one right reference");
        assert_eq!(group.right_nodes.len(), 1, "control: one right row");

        let user_edge = group.user_edges[0].clone();
        assert_eq!(user_edge.src, group_id);
        assert_eq!(user_edge.src_entity, AUTHORISATION_ENT_SHORT);
        assert_eq!(user_edge.label, AUTH_USER_FIELD_SHORT);
        let right_edge = group.right_edges[0].clone();
        assert_eq!(right_edge.src, group_id);
        assert_eq!(right_edge.src_entity, AUTHORISATION_ENT_SHORT);
        assert_eq!(right_edge.label, AUTH_RIGHTS_FIELD_SHORT);

        //control (b): entries signed by a stranger with no right in R are not applied
        let deletion_date = std::cmp::max(now(), right_edge.cdate + 1);
        let e1 = EdgeDeletionEntry::build(room_id, &right_edge, deletion_date, &s.stranger);
        let e2 = EdgeDeletionEntry::build(room_id, &user_edge, deletion_date, &s.stranger);
        e1.verify().unwrap();
        e2.verify().unwrap();
        app.delete_edges(vec![e1, e2]).await.unwrap();
        let after_stranger = room_node(app, room_id).await;
        assert_eq!(
            after_stranger.auth_nodes[0].right_edges.len(),
            1,
            "control: a stranger cannot delete anything"
        );
        assert_eq!(
            after_stranger.auth_nodes[0].user_edges.len(),
            1,
            "control: a stranger cannot delete anything"
        );

        //the attack: M deletes the `rights` reference of the group (the right every other member relies on)
        //the `users` reference is attacked in a second step, both are checked
        let deletion_date = std::cmp::max(now(), right_edge.cdate + 1);
        assert!(deletion_date > right_edge.cdate);
        let entry = EdgeDeletionEntry::build(room_id, &right_edge, deletion_date, &s.m_key);
        assert!(entry.verify().is_ok(), "the entry of M has a valid signature");
        app.delete_edges(vec![entry]).await.unwrap();
        let after_right = room_node(app, room_id).await;

        let deletion_date_user = std::cmp::max(now(), user_edge.cdate + 1);
        let entry = EdgeDeletionEntry::build(room_id, &user_edge, deletion_date_user, &s.m_key);
        assert!(entry.verify().is_ok(), "the entry of M has a valid signature");
        app.delete_edges(vec![entry]).await.unwrap();
        let after_user = room_node(app, room_id).await;

        let log = edge_deletion_log(app, room_id, AUTHORISATION_ENT_SHORT, deletion_date).await;

        assert_eq!(after_right.auth_nodes.len(), 1);
        assert_eq!(after_user.auth_nodes.len(), 1);
        assert!(
            after_right.auth_nodes[0].right_edges.len() == 1
                && after_right.auth_nodes[0].right_edges[0].signature == right_edge.signature
                && after_right.auth_nodes[0].right_nodes.len() == 1,
            "C07 violated: a `rights` reference of a group of a room definition was deleted through the ordinary deletion log; \
            get_room_node now has {} right reference(s) and {} right row(s) for the group (before: 1 and 1)",
            after_right.auth_nodes[0].right_edges.len(),
            after_right.auth_nodes[0].right_nodes.len(),
        );
        assert!(
            after_user.auth_nodes[0].user_edges.len() == 1
                && after_user.auth_nodes[0].user_edges[0].signature == user_edge.signature
                && after_user.auth_nodes[0].user_nodes.len() == 1,
            "C07 violated: a `users` reference of a group of a room definition was deleted through the ordinary deletion log; \
            get_room_node now has {} user reference(s) and {} user row(s) for the group (before: 1 and 1)",
            after_user.auth_nodes[0].user_edges.len(),
            after_user.auth_nodes[0].user_nodes.len(),
        );
        assert!(after_user.check_consistency().is_ok());
        assert!(
            log.is_empty(),
            "C07 violated: a deletion of a group reference is stored in the edge deletion log served to peers"
        );
    }

    ///
    /// defence in depth: a NODE deletion entry signed by M for a room-definition row (the admin's sys.UserAuth row).
    /// Node deletion is room-scoped in SQL (`DELETE FROM _node WHERE room_id=? AND id=?`) and room-definition rows
    /// have no room_id: the row must survive (this holds on the unmodified code). The second part checks that the
    /// entry leaves no trace in the node deletion log that is served to peers.
    ///
    #[tokio::test(flavor = "multi_thread")]
    async fn f31c_node_deletion_entry_for_a_room_definition_row() {
        let s = set_up("verif witness f31c node").await;
        let app = &s.app;
        let room_id = s.room_id;

        let before = room_node(app, room_id).await;
        let admin_row = before.admin_nodes[0].node.clone();
        assert_eq!(admin_row._entity, USER_AUTH_ENT_SHORT);
        assert!(
            admin_row.room_id.is_none(),
            "control: a room-definition row has no room_id"
        );

        let deletion_date = std::cmp::max(now(), admin_row.mdate + 1);
        let entry = NodeDeletionEntry::build(room_id, &admin_row, deletion_date, &s.m_key);
        entry.verify().unwrap();
        app.delete_nodes(vec![entry]).await.unwrap();

        let after = room_node(app, room_id).await;
        assert_eq!(
            after.admin_nodes.len(),
            1,
            "C07 violated: an admin row of a room definition was deleted through the ordinary node deletion log"
        );
        assert_eq!(
            after.admin_nodes[0].node._signature,
            admin_row._signature
        );
        after.check_consistency().unwrap();

        let log = node_deletion_log(app, room_id, USER_AUTH_ENT_SHORT, deletion_date).await;
        assert!(
            log.is_empty(),
            "C07 defence in depth: the row survives, but the node deletion entry for a room-definition row was accepted: \
            {} entry(ies) for sys.UserAuth is/are stored in the node deletion log of the room and served to peers",
            log.len()
        );
    }
}
