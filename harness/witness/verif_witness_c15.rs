//! Witness tests for property C15:
//! "A refused version of the data model has no effect on the running instance
//!  or on what is stored."
//!
//! Registered as a child module of data_model_parser.rs so that private fields
//! of `DataModel` are readable.
//!
//! Run with:
//!   cargo test --offline --lib verif_witness_c15 -- --nocapture --test-threads=1

use super::*;

/// Order-insensitive snapshot of the whole model (HashMaps become JSON objects,
/// `serde_json::Value` equality on objects does not depend on key order).
fn snapshot(dm: &DataModel) -> serde_json::Value {
    serde_json::to_value(dm).unwrap()
}

/// Lists the JSON paths at which two snapshots differ.
fn diff_paths(path: &str, a: &serde_json::Value, b: &serde_json::Value, out: &mut Vec<String>) {
    use serde_json::Value;
    match (a, b) {
        (Value::Object(ma), Value::Object(mb)) => {
            let mut keys: Vec<&String> = ma.keys().chain(mb.keys()).collect();
            keys.sort();
            keys.dedup();
            for k in keys {
                let p = format!("{}/{}", path, k);
                match (ma.get(k), mb.get(k)) {
                    (Some(x), Some(y)) => diff_paths(&p, x, y, out),
                    (Some(x), None) => out.push(format!("{}: {} -> (absent)", p, x)),
                    (None, Some(y)) => out.push(format!("{}: (absent) -> {}", p, y)),
                    (None, None) => {}
                }
            }
        }
        _ => {
            if a != b {
                out.push(format!("{}: {} -> {}", path, a, b));
            }
        }
    }
}

// ---------------------------------------------------------------------------
// Test 1: deterministic, single entity, single field.
// `Entity::update` writes `self.deprecated` before it looks at any field.
// ---------------------------------------------------------------------------
#[test]
fn c15_refused_update_leaves_entity_flag_changed() {
    let v1 = "{ Person { name : String } }";
    let v2 = "{ @deprecated Person { name : Integer } }";

    let mut dm = DataModel::new();
    dm.update(v1).unwrap();
    assert!(!dm.get_entity("Person").unwrap().deprecated);

    let before_str = serde_json::to_string(&dm).unwrap();
    let before = snapshot(&dm);

    let res = dm.update(v2);
    match &res {
        Err(Error::CannotUpdateFieldType(_, _, _, _)) => {}
        other => panic!("v2 was expected to be refused with CannotUpdateFieldType, got {:?}", other),
    }

    let after_str = serde_json::to_string(&dm).unwrap();
    let after = snapshot(&dm);

    println!(
        "C15 test1: Person.deprecated before={} after refused update={}",
        before["namespaces"][""]["Person"]["deprecated"],
        after["namespaces"][""]["Person"]["deprecated"]
    );
    assert_eq!(
        before, after,
        "C15 violated: a refused data model version changed the running model"
    );
    assert_eq!(
        before_str, after_str,
        "C15 violated: a refused data model version changed the running model (string form)"
    );
}

// Same thing through `update_system` (the repair has to cover it too).
#[test]
fn c15_refused_system_update_leaves_entity_flag_changed() {
    let v1 = "sys { Thing { name : String } }";
    let v2 = "sys { @deprecated Thing { name : Integer } }";

    let mut dm = DataModel::new();
    dm.update_system(v1).unwrap();
    let before = snapshot(&dm);

    let res = dm.update_system(v2);
    assert!(res.is_err(), "v2 was expected to be refused");

    let after = snapshot(&dm);
    assert_eq!(
        before, after,
        "C15 violated: a refused system data model version changed the running model"
    );
}

// ---------------------------------------------------------------------------
// Test 2: several fields, compatible changes on 8 of them and an incompatible
// one (type change) on the 9th. Field iteration order is that of a HashMap with
// a fresh RandomState per model, so the test is repeated on ROUNDS fresh models
// and the number of models that were altered is reported.
// Expected per-model probability of being altered on unmodified code: 8/9
// (altered unless the offending field happens to be visited first).
// ---------------------------------------------------------------------------
#[test]
fn c15_refused_update_leaves_fields_changed() {
    const ROUNDS: usize = 64;
    let v1 = "{ Person {
        f0 : String, f1 : String, f2 : String, f3 : String,
        f4 : String, f5 : String, f6 : String, f7 : String,
        kind : String
    } }";
    // f0..f3 become nullable, f4..f7 receive a default value (both are accepted
    // changes), kind changes type (refused).
    let v2 = r#"{ Person {
        f0 : String nullable, f1 : String nullable, f2 : String nullable, f3 : String nullable,
        f4 : String default "a", f5 : String default "b", f6 : String default "c", f7 : String default "d",
        kind : Integer
    } }"#;

    let mut altered_models = 0;
    let mut altered_fields_total = 0;
    let mut first_diff: Option<String> = None;
    for round in 0..ROUNDS {
        let mut dm = DataModel::new();
        dm.update(v1).unwrap();
        let before = snapshot(&dm);
        let before_entity = dm.get_entity("Person").unwrap().clone();

        let res = dm.update(v2);
        match &res {
            Err(Error::CannotUpdateFieldType(_, _, _, _)) => {}
            other => panic!("round {}: expected CannotUpdateFieldType, got {:?}", round, other),
        }

        let after = snapshot(&dm);
        if before != after {
            altered_models += 1;
            let after_entity = dm.get_entity("Person").unwrap();
            let mut changed: Vec<String> = Vec::new();
            for (name, f) in &before_entity.fields {
                let g = after_entity.fields.get(name).unwrap();
                if f.nullable != g.nullable || f.default_value.is_some() != g.default_value.is_some()
                {
                    changed.push(name.clone());
                }
            }
            changed.sort();
            altered_fields_total += changed.len();
            if first_diff.is_none() {
                first_diff = Some(format!("round {}: fields altered: {:?}", round, changed));
            }
        }
    }
    println!(
        "C15 test2: {} models out of {} were altered by a refused update ({} field alterations in total); first: {:?}",
        altered_models, ROUNDS, altered_fields_total, first_diff
    );
    assert_eq!(
        altered_models, 0,
        "C15 violated: a refused data model version changed the running model in {} models out of {} ({:?})",
        altered_models, ROUNDS, first_diff
    );
}

// ---------------------------------------------------------------------------
// Test 2b: deterministic variant with several fields. The refusal comes from
// the second loop of `Entity::update` (a NEW field that is neither nullable nor
// has a default value -> MissingDefaultValue), which runs after ALL existing
// fields have been overwritten. No dependence on HashMap order.
// ---------------------------------------------------------------------------
#[test]
fn c15_refused_update_new_field_without_default_leaves_fields_changed() {
    let v1 = "{ Person { name : String, surname : String } }";
    let v2 = r#"{ @deprecated Person {
        name : String default "anonymous",
        surname : String nullable,
        age : Integer
    } }"#;

    let mut dm = DataModel::new();
    dm.update(v1).unwrap();
    let before = snapshot(&dm);

    let res = dm.update(v2);
    match &res {
        Err(Error::MissingDefaultValue(_, _)) => {}
        other => panic!("expected MissingDefaultValue, got {:?}", other),
    }

    let person = dm.get_entity("Person").unwrap();
    println!(
        "C15 test2b: after refused update: deprecated={} name.default={:?} surname.nullable={} has age={}",
        person.deprecated,
        person.fields.get("name").unwrap().default_value,
        person.fields.get("surname").unwrap().nullable,
        person.fields.contains_key("age"),
    );
    let after = snapshot(&dm);
    assert_eq!(
        before, after,
        "C15 violated: a refused data model version changed the running model"
    );
}

// ---------------------------------------------------------------------------
// Test 3: through a real database instance.
// v1: Person{name, surname} both mandatory.
// v2: surname becomes nullable (accepted change) and a new mandatory field
//     without default is added (refused, MissingDefaultValue). Deterministic.
// After the refusal the instance must still behave as v1: the data model it
// reports is that of v1, and a mutation that omits `surname` is still refused.
// ---------------------------------------------------------------------------
#[tokio::test(flavor = "multi_thread")]
async fn c15_refused_update_through_the_database_service() {
    use crate::{
        configuration::Configuration, database::graph_database::GraphDatabaseService,
        event_service::EventService, security::random32,
    };
    use std::path::PathBuf;

    const DATA_PATH: &str = "test_data/database/verif_witness_c15/";
    let path: PathBuf = DATA_PATH.into();
    std::fs::create_dir_all(&path).unwrap();

    let v1 = "{ Person { name : String, surname : String } }";
    let v2 = "{ Person { name : String, surname : String nullable, age : Integer } }";

    let (app, _, _) = GraphDatabaseService::start(
        "verif witness c15 app",
        v1,
        &random32(),
        &random32(),
        path,
        &Configuration::default(),
        EventService::new(),
    )
    .await
    .unwrap();

    let mut violations: Vec<String> = Vec::new();

    // the instance behaves as v1: surname is mandatory
    let r = app
        .mutate_raw(r#"mutate { Person { name : "Alice" } }"#, None)
        .await;
    assert!(
        r.is_err(),
        "sanity: under v1 a Person without surname must be refused"
    );

    let before_str = app.datamodel().await.unwrap();
    let before: serde_json::Value = serde_json::from_str(&before_str).unwrap();

    // v2 is a refused version: checked on a private copy of the reported model
    {
        let mut copy: DataModel = serde_json::from_str(&before_str).unwrap();
        match copy.update(v2) {
            Err(Error::MissingDefaultValue(_, _)) => {}
            other => panic!("v2 was expected to be refused with MissingDefaultValue, got {:?}", other),
        }
    }

    // NOTE: GraphDatabaseService::update_data_model discards the inner result
    // (`let _ = receive.await?;`) and answers with the current model, so the
    // refusal is not visible in `res` (side observation, not asserted).
    let res = app.update_data_model(v2).await;
    println!(
        "C15 test3: service-level update_data_model(v2) returned is_ok={} (the refusal is swallowed by the service wrapper)",
        res.is_ok()
    );

    // 1. the model reported by the running instance
    let after_str = app.datamodel().await.unwrap();
    let after: serde_json::Value = serde_json::from_str(&after_str).unwrap();
    let p_before = &before["namespaces"][""]["Person"]["fields"]["surname"]["nullable"];
    let p_after = &after["namespaces"][""]["Person"]["fields"]["surname"]["nullable"];
    println!(
        "C15 test3: reported Person.surname.nullable before={} after refused update={}",
        p_before, p_after
    );
    // The top-level `model` entry (the source text of the last applied model, a
    // private field that nothing reads back) is left out here and is checked on
    // its own by c15_refused_update_through_the_database_service_model_text:
    // GraphDatabase::update_data_model applies update_system(SYSTEM_DATA_MODEL)
    // (which succeeds and overwrites that text) before update(v2) is refused.
    let mut diffs = Vec::new();
    diff_paths("", &before, &after, &mut diffs);
    diffs.retain(|d| !d.starts_with("/model:"));
    if !diffs.is_empty() {
        violations.push(format!(
            "the data model reported by the running instance changed: {:?}",
            diffs
        ));
    }
    assert!(
        after["namespaces"][""]["Person"]["fields"]["age"].is_null(),
        "sanity: v2 must not have been accepted"
    );

    // 2. behaviour + what is stored: a Person without surname must still be refused
    let r = app
        .mutate_raw(r#"mutate { Person { name : "Bob" } }"#, None)
        .await;
    if r.is_ok() {
        let stored = app
            .query("query q { Person { name surname } }", None)
            .await
            .unwrap();
        violations.push(format!(
            "a mutation valid only under the refused v2 (no surname) was accepted and stored: {}",
            stored.replace('\n', "")
        ));
    }

    // 3. informational: a later update reloads the model from the database,
    //    which was not written by the refused update.
    let healed_str = app.update_data_model(v1).await.unwrap();
    let healed: serde_json::Value = serde_json::from_str(&healed_str).unwrap();
    println!(
        "C15 test3: after a later successful update_data_model(v1) the reported model equals the initial one: {}",
        healed == before
    );

    assert!(
        violations.is_empty(),
        "C15 violated: a refused data model version changed the running instance: {:#?}",
        violations
    );
}

// ---------------------------------------------------------------------------
// Test 3b: strict variant of test 3 restricted to the `model` source text that
// the instance reports. `GraphDatabase::update_data_model` runs
//   reload from the database ; update_system(SYSTEM_DATA_MODEL) ; update(v2)
// on the live model. The first two steps succeed before v2 is refused, and
// `update_with` ends with `self.model = new_data_model.model`, so the reported
// source text becomes that of the system model. Making DataModel::update atomic
// is not enough for this one: the sequence in graph_database.rs has to work on
// a copy as well.
// ---------------------------------------------------------------------------
#[tokio::test(flavor = "multi_thread")]
async fn c15_refused_update_through_the_database_service_model_text() {
    use crate::{
        configuration::Configuration, database::graph_database::GraphDatabaseService,
        event_service::EventService, security::random32,
    };
    use std::path::PathBuf;

    const DATA_PATH: &str = "test_data/database/verif_witness_c15/";
    let path: PathBuf = DATA_PATH.into();
    std::fs::create_dir_all(&path).unwrap();

    let v1 = "{ Person { name : String, surname : String } }";
    let v2 = "{ Person { name : String, surname : String nullable, age : Integer } }";

    let (app, _, _) = GraphDatabaseService::start(
        "verif witness c15 model text app",
        v1,
        &random32(),
        &random32(),
        path,
        &Configuration::default(),
        EventService::new(),
    )
    .await
    .unwrap();

    let before: serde_json::Value =
        serde_json::from_str(&app.datamodel().await.unwrap()).unwrap();
    assert_eq!(before["model"], serde_json::Value::String(v1.to_string()));

    let _ = app.update_data_model(v2).await;

    let after: serde_json::Value =
        serde_json::from_str(&app.datamodel().await.unwrap()).unwrap();
    assert!(
        after["namespaces"][""]["Person"]["fields"]["age"].is_null(),
        "sanity: v2 must not have been accepted"
    );
    let text_after = after["model"].as_str().unwrap();
    println!(
        "C15 test3b: reported model text after refused update starts with: {:?}",
        text_after.trim_start().chars().take(40).collect::<String>()
    );
    assert_eq!(
        before["model"], after["model"],
        "C15 violated: a refused data model version changed the model text reported by the running instance"
    );
}
