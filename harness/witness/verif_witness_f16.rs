//! Witness for F16: `RoomAuthorisations::validate_deletion` compares `edge.edge.src_entity`
//! (the SHORT entity name, "0.0" for sys.Room) with the full name constants ("sys.Room" ...).
//! The `DeleteNotAllowed` arm can never be selected for a reference deletion.
//!
//! Specification: the room definition is append only, references of sys.Room / sys.Authorisation
//! cannot be removed by a deletion query (Error::DeleteNotAllowed).

use std::{fs, path::PathBuf};

use crate::{
    configuration::Configuration,
    database::{
        graph_database::GraphDatabaseService,
        query_language::parameter::{Parameters, ParametersAdd},
    },
    event_service::EventService,
    security::{base64_encode, random32},
};

const DATA_PATH: &str = "test_data/database/verif_witness_f16/";
fn init_database_path() {
    let path: PathBuf = DATA_PATH.into();
    fs::create_dir_all(&path).unwrap();
}

#[tokio::test(flavor = "multi_thread")]
async fn f16_room_definition_references_cannot_be_deleted() {
    init_database_path();
    let data_model = "{Person{ name:String }}";

    let secret = random32();
    let path: PathBuf = DATA_PATH.into();
    let (app, verifying_key, _) = GraphDatabaseService::start(
        "witness f16",
        data_model,
        &secret,
        &random32(),
        path,
        &Configuration::default(),
        EventService::new(),
    )
    .await
    .unwrap();

    let user_id = base64_encode(&verifying_key);

    let mut param = Parameters::default();
    param.add("user_id", user_id.clone()).unwrap();
    let room = app
        .mutate_raw(
            r#"mutate {
                sys.Room{
                    admin: [{
                        verif_key:$user_id
                    }]
                    authorisations:[{
                        name:"admin"
                        rights:[{
                            entity:"Person"
                            mutate_self:true
                            mutate_all:true
                        }]
                        users:[{
                            verif_key:$user_id
                        }]
                    }]
                }
            }"#,
            Some(param),
        )
        .await
        .unwrap();

    let room_insert = &room.mutate_entities[0];
    let room_id = base64_encode(&room_insert.node_to_mutate.id);
    let admin_insert = &room_insert.sub_nodes.get("admin").unwrap()[0];
    let admin_id = base64_encode(&admin_insert.node_to_mutate.id);
    let auth_insert = &room_insert.sub_nodes.get("authorisations").unwrap()[0];
    let auth_id = base64_encode(&auth_insert.node_to_mutate.id);
    let right_insert = &auth_insert.sub_nodes.get("rights").unwrap()[0];
    let right_id = base64_encode(&right_insert.node_to_mutate.id);

    const ROOM_QUERY: &str = "query q{
        sys.Room{
            admin{ enabled }
            authorisations(nullable(rights)){
                name
                rights{ entity }
            }
        }
    }";
    let before = app.query(ROOM_QUERY, None).await.unwrap();
    assert_eq!(
        before,
        "{\n\"sys.Room\":[{\"admin\":[{\"enabled\":true}],\"authorisations\":[{\"name\":\"admin\",\"rights\":[{\"entity\":\"Person\"}]}]}]\n}"
    );

    //control: node deletion of a room is refused
    let mut param = Parameters::default();
    param.add("room_id", room_id.clone()).unwrap();
    app.delete("delete { sys.Room { $room_id } }", Some(param))
        .await
        .expect_err("control: a room node cannot be deleted");

    //witness 1: sys.Authorisation.rights reference
    let mut param = Parameters::default();
    param.add("auth_id", auth_id.clone()).unwrap();
    param.add("right_id", right_id.clone()).unwrap();
    let del_right = app
        .delete(
            "delete { sys.Authorisation { $auth_id rights[$right_id] } }",
            Some(param),
        )
        .await;

    //witness 2: sys.Room.admin reference
    let mut param = Parameters::default();
    param.add("room_id", room_id.clone()).unwrap();
    param.add("admin_id", admin_id.clone()).unwrap();
    let del_admin = app
        .delete(
            "delete { sys.Room { $room_id admin[$admin_id] } }",
            Some(param),
        )
        .await;

    let after = app.query(ROOM_QUERY, None).await.unwrap();

    assert!(
        del_right.is_err(),
        "F16: deletion of the reference sys.Authorisation.rights was accepted; room definition is now {}",
        after
    );
    assert!(
        del_admin.is_err(),
        "F16: deletion of the reference sys.Room.admin was accepted; room definition is now {}",
        after
    );
    assert_eq!(before, after, "the room definition is unchanged");
}
