//! Witness for F27 (property C01): a row authored by someone else is changed only with the
//! all-rows right; a refused operation changes nothing.
//!
//! Two database instances are used: Bob's (admin of the room, author of row N) and Alice's
//! (plain member of the room). The room and the rows travel from one instance to the other with
//! the functions used by the synchronisation (get_room_node/add_room_node, get_nodes,
//! filter_existing_node, add_nodes, get_edges, add_edges).
use std::{
    collections::{HashMap, HashSet},
    fs,
    path::PathBuf,
    time::Duration,
};

use crate::{
    configuration::Configuration,
    database::{
        edge::Edge,
        graph_database::GraphDatabaseService,
        node::{Node, NodeIdentifier, NodeToInsert},
        query_language::parameter::{Parameters, ParametersAdd},
        room_node::RoomNode,
        system_entities::ROOM_AUTHORISATION_FIELD,
    },
    event_service::EventService,
    security::{base64_encode, new_uid, random32, uid_encode, Uid},
};

const DATA_PATH: &str = "test_data/database/verif_witness_f27/";

async fn start(data_model: &str) -> (GraphDatabaseService, Vec<u8>) {
    let path: PathBuf = DATA_PATH.into();
    fs::create_dir_all(&path).unwrap();
    let (app, verifying_key, _) = GraphDatabaseService::start(
        "f27 app",
        data_model,
        &random32(),
        &random32(),
        path,
        &Configuration::default(),
        EventService::new(),
    )
    .await
    .unwrap();
    (app, verifying_key)
}

const DATA_MODEL: &str = "{
    Person{
        name:String,
        parents:[Person]
    }
}";

/// transmit the full definition of a room from an instance to another
async fn sync_room(from: &GraphDatabaseService, to: &GraphDatabaseService, room_id: Uid) {
    let node = from.get_room_node(room_id).await.unwrap().unwrap();
    //serialize and deserialize to get rid of the local ids
    let ser = bincode::serialize(&node).unwrap();
    let node: RoomNode = bincode::deserialize(&ser).unwrap();
    to.add_room_node(node).await.unwrap();
}

/// transmit rows and their references like the synchronisation does
/// returns (rejected rows, rejected references)
async fn sync_rows(
    from: &GraphDatabaseService,
    to: &GraphDatabaseService,
    room_id: Uid,
    ids: Vec<Uid>,
) -> (Vec<Uid>, Vec<Uid>) {
    let mut recv = from.get_nodes(room_id, ids).await;
    let mut nodes: Vec<Node> = Vec::new();
    while let Some(r) = recv.recv().await {
        nodes.extend(r.unwrap());
    }
    //serialize and deserialize to get rid of the local ids
    let ser = bincode::serialize(&nodes).unwrap();
    let nodes: Vec<Node> = bincode::deserialize(&ser).unwrap();

    let mut identifiers = HashSet::new();
    for node in &nodes {
        node.verify().unwrap();
        identifiers.insert(NodeIdentifier {
            id: node.id,
            mdate: node.mdate,
            signature: node._signature.clone(),
        });
    }
    let filtered = to.filter_existing_node(identifiers).await.unwrap();
    let mut node_map: HashMap<Uid, NodeToInsert> = HashMap::new();
    let mut edge_list = Vec::new();
    for nti in filtered {
        edge_list.push((nti.id, nti.old_mdate));
        node_map.insert(nti.id, nti);
    }
    let mut nodes_to_insert = Vec::new();
    for mut node in nodes {
        if let Some(mut nti) = node_map.remove(&node.id) {
            node._local_id = nti.old_local_id;
            nti.node = Some(node);
            nodes_to_insert.push(nti);
        }
    }
    let rejected_nodes = to.add_nodes(room_id, nodes_to_insert).await.unwrap();

    let mut recv = from.get_edges(room_id, edge_list).await;
    let mut edges: Vec<Edge> = Vec::new();
    while let Some(r) = recv.recv().await {
        edges.extend(r.unwrap());
    }
    let ser = bincode::serialize(&edges).unwrap();
    let edges: Vec<Edge> = bincode::deserialize(&ser).unwrap();
    for edge in &edges {
        edge.verify().unwrap();
    }
    let rejected_edges = to.add_edges(room_id, edges).await.unwrap();
    (rejected_nodes, rejected_edges)
}

/// the stored version of a row
async fn stored_row(app: &GraphDatabaseService, room_id: Uid, id: Uid) -> Node {
    let mut recv = app.get_nodes(room_id, vec![id]).await;
    let mut nodes: Vec<Node> = Vec::new();
    while let Some(r) = recv.recv().await {
        nodes.extend(r.unwrap());
    }
    assert_eq!(1, nodes.len(), "the row is stored exactly once");
    nodes.pop().unwrap()
}

/// the stored references of a row
async fn stored_references(app: &GraphDatabaseService, room_id: Uid, id: Uid) -> Vec<Edge> {
    let mut recv = app.get_edges(room_id, vec![(id, 0)]).await;
    let mut edges: Vec<Edge> = Vec::new();
    while let Some(r) = recv.recv().await {
        edges.extend(r.unwrap());
    }
    edges
}

fn same_version(a: &Node, b: &Node) -> bool {
    a.verifying_key == b.verifying_key
        && a.mdate == b.mdate
        && a._signature == b._signature
        && a._json == b._json
}

fn describe(n: &Node) -> String {
    format!(
        "(author {}, mdate {}, signature {}.., json {:?})",
        &base64_encode(&n.verifying_key)[0..8],
        n.mdate,
        &base64_encode(&n._signature)[0..8],
        n._json
    )
}

struct Setup {
    bob: GraphDatabaseService,
    bob_key: Vec<u8>,
    alice: GraphDatabaseService,
    alice_key: Vec<u8>,
    room_id: Uid,
    alice_auth_id: Uid,
    n_id: Uid,
    father_id: Uid,
    mother_id: Uid,
}

///
/// Room R, created by Bob who is its only admin.
///  authorisation "authors": Bob, own-rows and all-rows rights on Person
///  authorisation "members": Alice, rights on Person given by the parameters
/// Row N (Person, two parents) is authored by Bob in R and received by Alice.
///
async fn setup(alice_mutate_self: bool, alice_mutate_all: bool) -> Setup {
    let (bob, bob_key) = start(DATA_MODEL).await;
    let (alice, alice_key) = start(DATA_MODEL).await;

    let mut param = Parameters::default();
    param.add("bob", base64_encode(&bob_key)).unwrap();
    param.add("alice", base64_encode(&alice_key)).unwrap();
    let room = bob
        .mutate_raw(
            &format!(
                r#"mutate mut {{
                    sys.Room{{
                        admin: [{{
                            verif_key:$bob
                        }}]
                        authorisations:[{{
                            name:"authors"
                            rights:[{{
                                entity:"Person"
                                mutate_self:true
                                mutate_all:true
                            }}]
                            users: [{{
                                verif_key:$bob
                            }}]
                        }},{{
                            name:"members"
                            rights:[{{
                                entity:"Person"
                                mutate_self:{}
                                mutate_all:{}
                            }}]
                            users: [{{
                                verif_key:$alice
                            }}]
                        }}]
                    }}
                }}"#,
                alice_mutate_self, alice_mutate_all
            ),
            Some(param),
        )
        .await
        .unwrap();
    let room_insert = &room.mutate_entities[0];
    let room_id = room_insert.node_to_mutate.id;
    let auths = room_insert.sub_nodes.get(ROOM_AUTHORISATION_FIELD).unwrap();
    assert_eq!(2, auths.len());
    let alice_auth_id = auths[1].node_to_mutate.id;

    sync_room(&bob, &alice, room_id).await;

    let mut param = Parameters::default();
    param.add("room_id", uid_encode(&room_id)).unwrap();
    let mutat = bob
        .mutate_raw(
            r#"mutate mut {
                P1: Person{
                    room_id: $room_id
                    name: "N"
                    parents:[{name:"father"},{name:"mother"}]
                }
            }"#,
            Some(param),
        )
        .await
        .expect("Bob can insert");
    let ent = &mutat.mutate_entities[0];
    let n_id = ent.node_to_mutate.id;
    let parents = ent.sub_nodes.get("parents").unwrap();
    let father_id = parents[0].node_to_mutate.id;
    let mother_id = parents[1].node_to_mutate.id;

    let (rejected_nodes, rejected_edges) =
        sync_rows(&bob, &alice, room_id, vec![n_id, father_id, mother_id]).await;
    assert!(
        rejected_nodes.is_empty() && rejected_edges.is_empty(),
        "control: Alice's instance accepts Bob's rows"
    );

    //control: Alice holds row N, authored by Bob, with its two references
    let n = stored_row(&alice, room_id, n_id).await;
    assert_eq!(n.verifying_key, bob_key, "control: N is authored by Bob");
    assert_ne!(bob_key, alice_key);
    let result = alice
        .query(
            "query q{
                Person(name=\"N\"){
                    name
                    parents(order_by(name asc)){name}
                }
            }",
            None,
        )
        .await
        .unwrap();
    assert_eq!(
        result,
        "{\n\"Person\":[{\"name\":\"N\",\"parents\":[{\"name\":\"father\"},{\"name\":\"mother\"}]}]\n}"
    );

    Setup {
        bob,
        bob_key,
        alice,
        alice_key,
        room_id,
        alice_auth_id,
        n_id,
        father_id,
        mother_id,
    }
}

///
/// Scenario A: Alice (no all-rows right on Person) names a reference that does not exist
///
async fn reference_deletion_on_a_foreign_row(alice_mutate_self: bool) {
    let s = setup(alice_mutate_self, false).await;
    let before = stored_row(&s.alice, s.room_id, s.n_id).await;
    before.verify().unwrap();

    //control: Alice cannot update N with a mutation
    let mut param = Parameters::default();
    param.add("id", uid_encode(&s.n_id)).unwrap();
    s.alice
        .mutate_raw(
            r#"mutate mut {
                Person{
                    id: $id
                    name: "changed by Alice"
                }
            }"#,
            Some(param),
        )
        .await
        .expect_err("control: Alice cannot update a row of Bob with a mutation");
    let after = stored_row(&s.alice, s.room_id, s.n_id).await;
    assert!(
        same_version(&before, &after),
        "control: the refused mutation changed nothing"
    );

    //control: Alice cannot delete a reference of N that exists
    let mut param = Parameters::default();
    param.add("id", uid_encode(&s.n_id)).unwrap();
    param.add("p", uid_encode(&s.father_id)).unwrap();
    s.alice
        .delete("delete { Person { $id parents[$p] } }", Some(param))
        .await
        .expect_err("control: Alice cannot delete an existing reference of a row of Bob");
    let after = stored_row(&s.alice, s.room_id, s.n_id).await;
    assert!(
        same_version(&before, &after),
        "control: the refused reference deletion changed nothing"
    );
    assert_eq!(
        2,
        stored_references(&s.alice, s.room_id, s.n_id).await.len()
    );

    //control: the author of the row can delete a reference of its row: the row is re-dated and still authored by Bob
    tokio::time::sleep(Duration::from_millis(3)).await;
    let bob_before = stored_row(&s.bob, s.room_id, s.n_id).await;
    let mut param = Parameters::default();
    param.add("id", uid_encode(&s.n_id)).unwrap();
    param.add("p", uid_encode(&s.father_id)).unwrap();
    s.bob
        .delete("delete { Person { $id parents[$p] } }", Some(param))
        .await
        .expect("control: Bob can delete a reference of its own row");
    let bob_after = stored_row(&s.bob, s.room_id, s.n_id).await;
    bob_after.verify().unwrap();
    assert_eq!(bob_after.verifying_key, s.bob_key);
    assert!(
        bob_after.mdate > bob_before.mdate,
        "control: a reference deletion re-dates the source row"
    );
    let refs = stored_references(&s.bob, s.room_id, s.n_id).await;
    assert_eq!(1, refs.len());
    assert_eq!(refs[0].dest, s.mother_id);

    //the operation under test: Alice names a reference that does not exist
    tokio::time::sleep(Duration::from_millis(3)).await;
    let mut param = Parameters::default();
    param.add("id", uid_encode(&s.n_id)).unwrap();
    param.add("p", uid_encode(&new_uid())).unwrap();
    let res = s
        .alice
        .delete("delete { Person { $id parents[$p] } }", Some(param))
        .await;
    let outcome = match &res {
        Ok(_) => "accepted".to_string(),
        Err(e) => format!("refused ({})", e),
    };

    let after = stored_row(&s.alice, s.room_id, s.n_id).await;
    assert_eq!(
        2,
        stored_references(&s.alice, s.room_id, s.n_id).await.len(),
        "control: no reference was deleted"
    );

    if !same_version(&before, &after) {
        //what the other members of the room make of the new version
        let (rejected_nodes, _) = sync_rows(&s.alice, &s.bob, s.room_id, vec![s.n_id]).await;
        eprintln!(
            "F27: the version written by Alice is {} by Bob's instance",
            if rejected_nodes.contains(&s.n_id) {
                "REJECTED"
            } else {
                "accepted"
            }
        );
    }

    assert!(
        same_version(&before, &after),
        "C01 violated: a row authored by someone else was re-dated and re-signed by a caller without the right to change it \
        (Alice: mutate_self:{} mutate_all:false; the deletion of a reference that does not exist was {}); \
        before {} after {}; author is now Alice: {}",
        alice_mutate_self,
        outcome,
        describe(&before),
        describe(&after),
        after.verifying_key == s.alice_key
    );
}

#[tokio::test(flavor = "multi_thread")]
async fn f27_reference_deletion_reauthors_a_foreign_row() {
    reference_deletion_on_a_foreign_row(true).await;
}

#[tokio::test(flavor = "multi_thread")]
async fn f27_reference_deletion_reauthors_a_foreign_row_without_any_right() {
    reference_deletion_on_a_foreign_row(false).await;
}

///
/// control for the repair: a caller with the own-rows right only still deletes a reference of its own row,
/// and a reference deletion that finds nothing leaves its own row untouched or re-dates it, but never fails for lack of right
///
#[tokio::test(flavor = "multi_thread")]
async fn f27_control_own_row_reference_deletion_still_works() {
    let s = setup(true, false).await;
    let mut param = Parameters::default();
    param.add("room_id", uid_encode(&s.room_id)).unwrap();
    let mutat = s
        .alice
        .mutate_raw(
            r#"mutate mut {
                P1: Person{
                    room_id: $room_id
                    name: "A"
                    parents:[{name:"A father"},{name:"A mother"}]
                }
            }"#,
            Some(param),
        )
        .await
        .expect("Alice can insert her own rows");
    let ent = &mutat.mutate_entities[0];
    let a_id = ent.node_to_mutate.id;
    let parents = ent.sub_nodes.get("parents").unwrap();
    let a_father_id = parents[0].node_to_mutate.id;

    let mut param = Parameters::default();
    param.add("id", uid_encode(&a_id)).unwrap();
    param.add("p", uid_encode(&new_uid())).unwrap();
    s.alice
        .delete("delete { Person { $id parents[$p] } }", Some(param))
        .await
        .expect("deleting a reference that does not exist on its own row is not an error");
    assert_eq!(2, stored_references(&s.alice, s.room_id, a_id).await.len());

    tokio::time::sleep(Duration::from_millis(3)).await;
    let before = stored_row(&s.alice, s.room_id, a_id).await;
    let mut param = Parameters::default();
    param.add("id", uid_encode(&a_id)).unwrap();
    param.add("p", uid_encode(&a_father_id)).unwrap();
    s.alice
        .delete("delete { Person { $id parents[$p] } }", Some(param))
        .await
        .expect("Alice can delete a reference of her own row");
    let after = stored_row(&s.alice, s.room_id, a_id).await;
    after.verify().unwrap();
    assert_eq!(after.verifying_key, s.alice_key);
    assert!(after.mdate > before.mdate);
    assert_eq!(1, stored_references(&s.alice, s.room_id, a_id).await.len());

    //the other members accept the new version
    let (rejected_nodes, rejected_edges) =
        sync_rows(&s.alice, &s.bob, s.room_id, vec![a_id]).await;
    assert!(rejected_nodes.is_empty() && rejected_edges.is_empty());
}

///
/// Scenario B: the reference exists and is authored by Alice, but its source row is (again) authored by Bob
/// and Alice has lost the all-rows right: the edge check (own-rows right) passes, the source row is not checked.
///
#[tokio::test(flavor = "multi_thread")]
async fn f27_own_reference_on_a_foreign_row() {
    //Alice starts with the all-rows right
    let s = setup(true, true).await;

    //Alice adds a reference to N: N is now authored by Alice, like the new reference
    let mut param = Parameters::default();
    param.add("id", uid_encode(&s.n_id)).unwrap();
    let mutat = s
        .alice
        .mutate_raw(
            r#"mutate mut {
                Person{
                    id: $id
                    parents:[{name:"stepmother"}]
                }
            }"#,
            Some(param),
        )
        .await
        .expect("control: with the all-rows right Alice can update N");
    let stepmother_id = mutat.mutate_entities[0].sub_nodes.get("parents").unwrap()[0]
        .node_to_mutate
        .id;
    let (rejected_nodes, rejected_edges) =
        sync_rows(&s.alice, &s.bob, s.room_id, vec![s.n_id, stepmother_id]).await;
    assert!(
        rejected_nodes.is_empty() && rejected_edges.is_empty(),
        "control: Bob's instance accepts Alice's update"
    );

    //Bob updates N: N is authored by Bob again; then Bob removes the all-rows right of Alice
    tokio::time::sleep(Duration::from_millis(3)).await;
    let mut param = Parameters::default();
    param.add("id", uid_encode(&s.n_id)).unwrap();
    s.bob
        .mutate_raw(
            r#"mutate mut {
                Person{
                    id: $id
                    name: "N2"
                }
            }"#,
            Some(param),
        )
        .await
        .unwrap();
    let mut param = Parameters::default();
    param.add("room_id", uid_encode(&s.room_id)).unwrap();
    param.add("auth_id", uid_encode(&s.alice_auth_id)).unwrap();
    s.bob
        .mutate_raw(
            r#"mutate mut {
                sys.Room{
                    id:$room_id
                    authorisations:[{
                        id:$auth_id
                        rights:[{
                            entity:"Person"
                            mutate_self:true
                            mutate_all:false
                        }]
                    }]
                }
            }"#,
            Some(param),
        )
        .await
        .unwrap();
    sync_room(&s.bob, &s.alice, s.room_id).await;
    let (rejected_nodes, rejected_edges) =
        sync_rows(&s.bob, &s.alice, s.room_id, vec![s.n_id]).await;
    assert!(rejected_nodes.is_empty() && rejected_edges.is_empty());
    tokio::time::sleep(Duration::from_millis(3)).await;

    let before = stored_row(&s.alice, s.room_id, s.n_id).await;
    assert_eq!(
        before.verifying_key, s.bob_key,
        "control: N is authored by Bob"
    );
    let refs = stored_references(&s.alice, s.room_id, s.n_id).await;
    assert_eq!(3, refs.len());
    let own: Vec<&Edge> = refs.iter().filter(|e| e.dest == stepmother_id).collect();
    assert_eq!(1, own.len());
    assert_eq!(
        own[0].verifying_key, s.alice_key,
        "control: the reference to stepmother is authored by Alice"
    );

    //control: Alice cannot update N with a mutation anymore
    let mut param = Parameters::default();
    param.add("id", uid_encode(&s.n_id)).unwrap();
    s.alice
        .mutate_raw(
            r#"mutate mut {
                Person{
                    id: $id
                    parents: null
                }
            }"#,
            Some(param),
        )
        .await
        .expect_err("control: Alice cannot remove the references of N with a mutation");

    //the operation under test
    let mut param = Parameters::default();
    param.add("id", uid_encode(&s.n_id)).unwrap();
    param.add("p", uid_encode(&stepmother_id)).unwrap();
    let res = s
        .alice
        .delete("delete { Person { $id parents[$p] } }", Some(param))
        .await;
    let outcome = match &res {
        Ok(_) => "accepted".to_string(),
        Err(e) => format!("refused ({})", e),
    };
    let after = stored_row(&s.alice, s.room_id, s.n_id).await;
    if !same_version(&before, &after) {
        let (rejected_nodes, _) = sync_rows(&s.alice, &s.bob, s.room_id, vec![s.n_id]).await;
        eprintln!(
            "F27: the version written by Alice is {} by Bob's instance",
            if rejected_nodes.contains(&s.n_id) {
                "REJECTED"
            } else {
                "accepted"
            }
        );
    }
    assert!(
        same_version(&before, &after),
        "C01 violated: a row authored by someone else was re-dated and re-signed by a caller without the right to change it \
        (Alice: mutate_self:true mutate_all:false, deleting her own reference on a row of Bob was {}); \
        before {} after {}; author is now Alice: {}",
        outcome,
        describe(&before),
        describe(&after),
        after.verifying_key == s.alice_key
    );
    if res.is_err() {
        assert_eq!(
            3,
            stored_references(&s.alice, s.room_id, s.n_id).await.len(),
            "a refused operation changes nothing"
        );
    }
}
