//! Witness test for defect F1.
//!
//! `RoomAuthorisations::validate_entity_mutation`: when a row is updated and moved from
//! an old room A to a different new room B, the caller's right must be checked in the room
//! the row LEAVES (A) as well as in the room it ENTERS (B).
//! The inner lookup uses `self.rooms.get(room_id)` (the NEW room) instead of
//! `self.rooms.get(old_room_id)`, so the departing room is never consulted.

use std::collections::HashMap;

use crate::security::{new_uid, Ed25519SigningKey, SigningKey, Uid};

use super::{
    authorisation_service::RoomAuthorisations,
    mutation_query::{InsertEntity, NodeToMutate},
    node::Node,
    room::{Authorisation, EntityRight, Room, User},
};

const ENTITY: &str = "Person";
const RIGHT_DATE: i64 = 10;
const MUTATION_DATE: i64 = 1000;

/// a room with a single authorisation.
/// if `member` is provided, it is a valid user since RIGHT_DATE and the authorisation gives
/// the own-rows right (mutate_self: true, mutate_all: false) on ENTITY since RIGHT_DATE
fn build_room(room_id: Uid, member: Option<&Vec<u8>>) -> Room {
    let mut room = Room {
        id: room_id,
        mdate: 0,
        admins: HashMap::new(),
        authorisations: HashMap::new(),
    };
    let mut auth = Authorisation {
        id: new_uid(),
        mdate: 0,
        users: HashMap::new(),
        rights: HashMap::new(),
        user_admins: HashMap::new(),
    };
    if let Some(verifying_key) = member {
        auth.add_user(User {
            verifying_key: verifying_key.clone(),
            date: RIGHT_DATE,
            enabled: true,
        })
        .unwrap();
        auth.add_right(EntityRight::new(
            RIGHT_DATE,
            ENTITY.to_string(),
            true,
            false,
        ))
        .unwrap();
    }
    room.add_auth(auth).unwrap();
    room
}

/// an update of a "Person" row owned by `verifying_key`, that moves from `old_room` to `new_room`
fn build_room_move(verifying_key: &Vec<u8>, old_room: Uid, new_room: Uid) -> InsertEntity {
    let id = new_uid();
    let old_node = Node {
        id,
        room_id: Some(old_room),
        cdate: RIGHT_DATE + 1,
        mdate: RIGHT_DATE + 1,
        _entity: ENTITY.to_string(),
        _json: Some("{}".to_string()),
        verifying_key: verifying_key.clone(),
        ..Default::default()
    };
    let node = Node {
        id,
        room_id: Some(new_room),
        cdate: RIGHT_DATE + 1,
        mdate: MUTATION_DATE,
        _entity: ENTITY.to_string(),
        _json: Some("{}".to_string()),
        verifying_key: verifying_key.clone(),
        ..Default::default()
    };
    InsertEntity {
        name: ENTITY.to_string(),
        node_to_mutate: NodeToMutate {
            id,
            date: MUTATION_DATE,
            entity: ENTITY.to_string(),
            room_id: Some(new_room),
            node: Some(node),
            node_fts_str: None,
            old_node: Some(old_node),
            old_fts_str: None,
            enable_full_text: false,
        },
        edge_deletions: Vec::new(),
        edge_deletions_log: Vec::new(),
        edge_insertions: Vec::new(),
        sub_nodes: HashMap::new(),
    }
}

#[test]
fn witness_f1_departing_room_right_is_checked() {
    let caller = Ed25519SigningKey::new();
    let verifying_key = caller.export_verifying_key();

    let room_a_id = new_uid();
    let room_b_id = new_uid();
    assert_ne!(room_a_id, room_b_id);

    // positive control: the caller has the own-rows right on "Person" in A and in B.
    // moving its own row from A to B is accepted
    {
        let mut auths = RoomAuthorisations {
            signing_key: Ed25519SigningKey::new(),
            rooms: HashMap::new(),
            max_node_size: 1024 * 1024,
        };
        auths.add_room(build_room(room_a_id, Some(&verifying_key)));
        auths.add_room(build_room(room_b_id, Some(&verifying_key)));

        let mut insert_entity = build_room_move(&verifying_key, room_a_id, room_b_id);
        let result = auths.validate_entity_mutation(&mut insert_entity, &verifying_key);
        assert!(
            result.is_ok(),
            "positive control: the caller has the own-rows right in both rooms, the move must be accepted, got: {:?}",
            result.err()
        );
    }

    // witness: the caller has the own-rows right on "Person" in B only.
    // A is known, but the caller is not a member of A and A grants no right at all
    {
        let mut auths = RoomAuthorisations {
            signing_key: Ed25519SigningKey::new(),
            rooms: HashMap::new(),
            max_node_size: 1024 * 1024,
        };
        let room_a = build_room(room_a_id, None);
        let room_b = build_room(room_b_id, Some(&verifying_key));

        // sanity checks on the setup: rights hold in B and do not hold in A at the mutation date
        use super::room::RightType;
        assert!(room_b.can(&verifying_key, ENTITY, MUTATION_DATE, &RightType::MutateSelf));
        assert!(!room_a.can(&verifying_key, ENTITY, MUTATION_DATE, &RightType::MutateSelf));
        assert!(!room_a.can(&verifying_key, ENTITY, MUTATION_DATE, &RightType::MutateAll));

        auths.add_room(room_a);
        auths.add_room(room_b);

        let mut insert_entity = build_room_move(&verifying_key, room_a_id, room_b_id);
        let result = auths.validate_entity_mutation(&mut insert_entity, &verifying_key);
        assert!(
            result.is_err(),
            "F1: a row was moved out of room A by a caller that has no right in room A: validate_entity_mutation returned Ok, the rights of the departing room were not checked"
        );
    }
}
