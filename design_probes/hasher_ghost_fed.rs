use vstd::prelude::*;
verus! {

// ---- stand-in for blake3 (in the real file: extern crate types)
pub struct Hasher { buf: Vec<u8> }
pub struct Hash { h: [u8; 32] }
impl Hasher {
    pub uninterp spec fn fed(&self) -> Seq<u8>;

    #[verifier::external_body]
    pub fn new() -> (r: Hasher) ensures r.fed() == Seq::<u8>::empty() { Hasher{buf: Vec::new()} }

    #[verifier::external_body]
    pub fn update(&mut self, input: &[u8]) -> (r: &mut Hasher)
        ensures final(self).fed() == old(self).fed() + input@
    { self.buf.extend_from_slice(input); self }

    #[verifier::external_body]
    pub fn finalize(&self) -> (r: Hash) ensures r == spec_h(self.fed()) { Hash{h:[0;32]} }
}
pub uninterp spec fn spec_h(s: Seq<u8>) -> Hash;

pub struct Edge {
    pub src: [u8;16],
    pub dest: [u8;16],
    pub vk: Vec<u8>,
}
pub open spec fn edge_enc(e: Edge) -> Seq<u8> { e.src@ + e.dest@ + e.vk@ }

impl Edge {
    fn hash(&self) -> (r: Hash)
        ensures r == spec_h(edge_enc(*self))
    {
        let mut hasher = Hasher::new();
        hasher.update(&self.src);
        hasher.update(&self.dest);
        hasher.update(&self.vk);
        hasher.finalize()
    }
}
} // verus!
fn main() {}
