use vstd::prelude::*;
use std::collections::HashMap;
verus! {
pub struct Ins { pub v: u8, pub subs: HashMap<String, Vec<Ins>> }

#[verifier::exec_allows_no_decreases_clause]
pub fn walk(e: &mut Ins) -> bool 
{
    for entry in &mut e.subs {
        for ins in entry.1 {
            let r = walk(ins);
            if !r { return false; }
        }
    }
    true
}
} // verus!
fn main() {}
