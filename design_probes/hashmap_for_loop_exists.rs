#![feature(allocator_api)]
use vstd::prelude::*;
use std::alloc::Allocator;
use vstd::std_specs::iter::IteratorSpec;
use std::collections::HashMap;
use std::collections::hash_map::Iter;
use std::hash::RandomState;
verus! {
broadcast use vstd::std_specs::hash::group_hash_axioms;

pub open spec fn iter_covers<K, V>(m: Map<K, V>, rem: Seq<(&K, &V)>) -> bool {
    &&& rem.len() == m.len()
    &&& forall|i: int| 0 <= i < rem.len() ==> m.contains_key(*(#[trigger] rem[i]).0) && m[*rem[i].0] == *rem[i].1
    &&& forall|k: K| m.contains_key(k) ==> exists|i: int| 0 <= i < rem.len() && *(#[trigger] rem[i]).0 == k
}

pub assume_specification<'a, K, V, S, A: Allocator>[ <&'a HashMap<K, V, S, A> as IntoIterator>::into_iter ](m: &'a HashMap<K, V, S, A>) -> (r: Iter<'a, K, V>)
    ensures iter_covers(m@, r.remaining()), r.obeys_prophetic_iter_laws();

#[verifier::exec_allows_no_decreases_clause]
pub fn t1(m: &HashMap<u64, bool>) -> (r: bool)
    ensures r == exists|k: u64| m@.contains_key(k) && #[trigger] m@[k]
{
    for entry in it: m 
        invariant
            iter_covers(m@, it.seq()),
            forall|k: u64| m@.contains_key(k) && #[trigger] m@[k] ==> exists|i: int| it.index@ <= i < it.seq().len() && *(#[trigger] it.seq()[i]).0 == k,
    {
        if *entry.1 { 
            assert(m@.contains_key(*entry.0) && m@[*entry.0]);
            return true; 
        }
    }
    false
}
} // verus!
fn main() {}
