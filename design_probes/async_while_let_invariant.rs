use vstd::prelude::*;
use std::collections::{HashSet, VecDeque, HashMap};
verus! {
pub struct Rx { x: u8 }
impl Rx {
    #[verifier::external_body]
    pub async fn recv(&mut self) -> Option<u64> { None }
}
#[verifier::exec_allows_no_decreases_clause]
pub async fn run(receiver0: Rx, max: usize) {
    let mut receiver = receiver0;
    let mut locked: HashSet<u64> = HashSet::new();
    let mut avalaible = max;
    let mut q: VecDeque<u64> = VecDeque::new();
    while let Some(msg) = receiver.recv().await 
        invariant locked@.len() + avalaible == max
    {
        if locked.remove(&msg) {
            avalaible += 1;
        }
        let any = q.iter().any(|e| msg.eq(e));
    }
}
} // verus!
fn main() {}
