use vstd::prelude::*;
use std::collections::HashMap;
verus! {
broadcast use vstd::std_specs::hash::group_hash_axioms;

pub enum Error { A(), InvalidUserDate() }
pub type Result<T> = std::result::Result<T, Error>;

pub struct User { pub verifying_key: Vec<u8>, pub date: i64, pub enabled: bool }
pub struct Room { pub admins: HashMap<Vec<u8>, Vec<User>> }

pub assume_specification<'a, K, V> [std::collections::hash_map::Entry::<'a, K, V>::or_default] (_0: std::collections::hash_map::Entry<'a, K, V>) -> &'a mut V
           where
           V: std::default::Default;

impl Room {
    pub fn add_admin_user(&mut self, user: User) -> Result<()> {
        let entry = self.admins.entry(user.verifying_key.clone()).or_default();

        if let Some(last_user) = entry.last() {
            if last_user.date > user.date {
                return Err(Error::InvalidUserDate());
            }
        }
        entry.push(user);
        Ok(())
    }
}
} // verus!
fn main() {}
