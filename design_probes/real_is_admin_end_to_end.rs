#![feature(allocator_api)]
use vstd::prelude::*;
use vstd::std_specs::iter::IteratorSpec;
use vstd::std_specs::hash::*;
use std::collections::HashMap;
verus! {
broadcast use {vstd::std_specs::hash::group_hash_axioms, trusted::axiom_vecu8_key_model};

pub type Uid = [u8; 16];


pub mod trusted {
    use vstd::prelude::*;
    use vstd::std_specs::hash::*;
    #[verifier::external_body]
    pub broadcast proof fn axiom_vecu8_key_model()
        ensures #[trigger] obeys_key_model::<Vec<u8>>()
    {}
}

pub open spec fn last_at(s: Seq<User>, date: i64) -> Option<User>
    decreases s.len()
{
    if s.len() == 0 { None }
    else if s.last().date <= date { Some(s.last()) }
    else { last_at(s.drop_last(), date) }
}
pub open spec fn enabled_at(s: Seq<User>, date: i64) -> bool {
    match last_at(s, date) { Some(u) => u.enabled, None => false }
}
pub open spec fn spec_is_admin(room: Room, key: Vec<u8>, date: i64) -> bool {
    room.admins@.contains_key(key) && enabled_at(room.admins@[key]@, date)
}

proof fn lemma_last_at_none(s: Seq<User>, date: i64)
    requires forall|i: int| 0 <= i < s.len() ==> (#[trigger] s[i]).date > date,
    ensures last_at(s, date) is None
    decreases s.len()
{
    if s.len() > 0 { lemma_last_at_none(s.drop_last(), date); }
}
proof fn lemma_last_at_some(s: Seq<User>, date: i64, k: int)
    requires 0 <= k < s.len(), s[k].date <= date,
             forall|i: int| k < i < s.len() ==> (#[trigger] s[i]).date > date,
    ensures last_at(s, date) == Some(s[k])
    decreases s.len()
{
    if k != s.len() - 1 { lemma_last_at_some(s.drop_last(), date, k); }
}
proof fn lemma_rev_find(s: Seq<User>, date: i64, r: Option<&User>)
    requires ({
        let rem = s.as_ref().reverse();
        match r {
            Some(user) => exists|idx: int| 0 <= idx < rem.len() && #[trigger] rem[idx] == user && user.date <= date
                            && (forall|j:int| 0 <= j < idx ==> !((#[trigger] rem[j]).date <= date)),
            None => forall|j:int| 0 <= j < rem.len() ==> !((#[trigger] rem[j]).date <= date),
        }
    })
    ensures last_at(s, date) == match r { Some(u) => Some(*u), None => None }
{
    let rem = s.as_ref().reverse();
    assert(rem.len() == s.len());
    assert(forall|i:int| 0<=i<s.len() ==> *(#[trigger] rem[i]) == s[s.len()-1-i]);
    match r {
        Some(user) => {
            let idx = choose|idx: int| 0 <= idx < rem.len() && #[trigger] rem[idx] == user && user.date <= date
                            && (forall|j:int| 0 <= j < idx ==> !((#[trigger] rem[j]).date <= date));
            let k = s.len() - 1 - idx;
            assert(s[k] == *user);
            assert forall|i: int| k < i < s.len() implies (#[trigger] s[i]).date > date by {
                let j = s.len() - 1 - i;
                assert(*rem[j] == s[i]);
            }
            lemma_last_at_some(s, date, k);
        }
        None => {
            assert forall|i: int| 0 <= i < s.len() implies (#[trigger] s[i]).date > date by {
                let j = s.len() - 1 - i;
                assert(*rem[j] == s[i]);
            }
            lemma_last_at_none(s, date);
        }
    }
}

// ---------------- extracted verbatim from src/database/room.rs (derives dropped) -------------
pub struct Room {
    pub id: Uid,
    pub mdate: i64,
    pub admins: HashMap<Vec<u8>, Vec<User>>,
}
pub struct User {
    pub verifying_key: Vec<u8>,
    pub date: i64,
    pub enabled: bool,
}
impl Room {
    pub fn is_admin(&self, user: &Vec<u8>, date: i64) -> (r: bool)
        ensures r == spec_is_admin(*self, *user, date)
    {
        if let Some(val) = self.admins.get(user) {
            let user_opt = val.iter().rev().find(|user| -> (b: bool) ensures b == (user.date <= date) { user.date <= date });
            proof { lemma_rev_find(val@, date, user_opt); }
            match user_opt {
                Some(user) => user.enabled,
                None => false,
            }
        } else {
            false
        }
    }
}
} // verus!
fn main() {}
