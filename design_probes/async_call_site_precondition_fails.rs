use vstd::prelude::*;
use std::collections::HashSet;
verus! {

pub struct Db { pub x: u64 }
pub struct Peer { pub allowed: HashSet<u64>, pub db: Db }

impl Db {
    #[verifier::external_body]
    pub async fn fetch(&self, room: u64, Ghost(allowed): Ghost<Set<u64>>) -> (r: u64)
        requires allowed.contains(room)
    { room }
}

pub async fn serve(p: &mut Peer, room: u64, flag: bool) -> (r: u64)
{
    if p.allowed.contains(&room) || flag {
        let v = p.db.fetch(room, Ghost(p.allowed@)).await;
        v
    } else { 0 }
}
} // verus!
fn main() {}
