#![feature(allocator_api)]
use vstd::prelude::*;
use vstd::std_specs::hash::*;
use vstd::std_specs::cmp::PartialEqSpec;
use std::collections::HashMap;
verus! {
pub mod trusted {
    use vstd::prelude::*;
    use vstd::std_specs::hash::*;
    #[verifier::external_body]
    pub broadcast proof fn axiom_uid_key_model()
        ensures #[trigger] obeys_key_model::<[u8;16]>()
    {}
}
broadcast use {vstd::laws_eq::group_laws_eq, vstd::std_specs::hash::group_hash_axioms, trusted::axiom_uid_key_model};

pub type Uid = [u8; 16];

pub enum RightType { MutateSelf, MutateAll }

// ---- U1 is seen through its contract only
pub struct Room { pub id: Uid }
pub uninterp spec fn spec_can(room: Room, user: Vec<u8>, entity: Seq<char>, date: i64, right: RightType) -> bool;
impl Room {
    #[verifier::external_body]
    pub fn can(&self, user: &Vec<u8>, entity: &str, date: i64, right: &RightType) -> (r: bool)
        ensures r == spec_can(*self, *user, entity@, date, *right)
    { unimplemented!() }
}

pub mod bincode {
    use vstd::prelude::*;
    pub struct Error { x: u8 }
    #[verifier::external_body]
    pub fn serialized_size(n: &super::Node) -> (r: Result<u64, Error>) { unimplemented!() }
}

// ---- extracted (derives dropped)
pub struct Node {
    pub id: Uid,
    pub room_id: Option<Uid>,
    pub cdate: i64,
    pub mdate: i64,
    pub _entity: String,
    pub _json: Option<String>,
    pub _binary: Option<Vec<u8>>,
    pub verifying_key: Vec<u8>,
    pub _signature: Vec<u8>,
    pub _local_id: Option<i64>,
}
pub struct NodeToInsert {
    pub id: Uid,
    pub node: Option<Node>,
    pub entity_name: Option<String>,
    pub index: bool,
    pub old_room_id: Option<Uid>,
    pub old_mdate: i64,
    pub old_verifying_key: Option<Vec<u8>>,
    pub old_local_id: Option<i64>,
    pub old_fts_str: Option<String>,
    pub node_fts_str: Option<String>,
}
pub struct RoomAuthorisations {
    pub rooms: HashMap<Uid, Room>,
    pub max_node_size: u64,
}

pub open spec fn needed(old_key: Option<Vec<u8>>, author: Vec<u8>) -> RightType {
    match old_key { Some(k) => if k@ =~= author@ { RightType::MutateSelf } else { RightType::MutateAll }, None => RightType::MutateSelf }
}
pub open spec fn spec_validate_node(a: RoomAuthorisations, n: NodeToInsert) -> bool {
    &&& n.node is Some
    &&& n.node->0.room_id is Some
    &&& n.entity_name is Some
    &&& a.rooms@.contains_key(n.node->0.room_id->0)
    &&& spec_can(a.rooms@[n.node->0.room_id->0], n.node->0.verifying_key, n.entity_name->0@, n.node->0.mdate, needed(n.old_verifying_key, n.node->0.verifying_key))
    &&& (n.old_room_id is Some && !(n.old_room_id->0@ =~= n.node->0.room_id->0@) ==>
            a.rooms@.contains_key(n.old_room_id->0)
            && spec_can(a.rooms@[n.old_room_id->0], n.node->0.verifying_key, n.entity_name->0@, n.node->0.mdate, needed(n.old_verifying_key, n.node->0.verifying_key)))
}

impl RoomAuthorisations {
    pub fn validate_node(&self, node_to_insert: &NodeToInsert) -> (r: bool)
        ensures r ==> spec_validate_node(*self, *node_to_insert)
    {
        proof {
            assert(<Vec<u8> as PartialEqSpec<Vec<u8>>>::obeys_eq_spec());
            assert(<[u8;16] as PartialEqSpec<[u8;16]>>::obeys_eq_spec());
        }
        let node = match &node_to_insert.node {
            Some(n) => n,
            None => return false,
        };

        match bincode::serialized_size(node) {
            Ok(size) => {
                if size > self.max_node_size {
                    return false;
                }
            }
            Err(_) => return false,
        }

        let required_right = match &node_to_insert.old_verifying_key {
            Some(old_key) => match old_key.eq(&node.verifying_key) {
                true => RightType::MutateSelf,
                false => RightType::MutateAll,
            },
            None => RightType::MutateSelf,
        };
        let room_id = &node.room_id;
        if room_id.is_none() {
            return false; //during synchronisation only non empty rooms make sense
        }
        let room_id = room_id.unwrap();

        if let Some(old_room_id) = &node_to_insert.old_room_id {
            if !old_room_id.eq(&room_id) {
                let room = self.rooms.get(old_room_id);
                if room.is_none() {
                    return false;
                }
                let room = room.unwrap();
                if node_to_insert.entity_name.is_none() {
                    return false;
                }
                let entity_name = &node_to_insert.entity_name.clone().unwrap();
                if !room.can(
                    &node.verifying_key,
                    entity_name,
                    node.mdate,
                    &required_right,
                ) {
                    return false;
                }
            }
        }

        let room = self.rooms.get(&room_id);
        if room.is_none() {
            return false;
        }
        let room = room.unwrap();

        if node_to_insert.entity_name.is_none() {
            return false;
        }
        let entity_name = &node_to_insert.entity_name.clone().unwrap();
        if !room.can(
            &node.verifying_key,
            entity_name,
            node.mdate,
            &required_right,
        ) {
            return false;
        }

        // for edge in &node_to_insert.edges {
        //     let required_right = match &node_to_insert.old_verifying_key {
        //         Some(old_key) => match old_key.eq(&edge.verifying_key) {
        //             true => RightType::MutateSelf,
        //             false => RightType::MutateAll,
        //         },
        //         None => RightType::MutateSelf,
        //     };
        //     if !room.can(
        //         &edge.verifying_key,
        //         entity_name,
        //         edge.cdate,
        //         &required_right,
        //     ) {
        //         return false;
        //     }
        // }

        true
    }

}
} // verus!
fn main() {}
