use vstd::prelude::*;
verus! {
pub type Uid = [u8; 16];
pub enum Error { Json(serde_json::Error), Other() }
pub type Result<T> = std::result::Result<T, Error>;
impl From<serde_json::Error> for Error {
    #[verifier::external_body]
    fn from(e: serde_json::Error) -> Error { unimplemented!() }
}

pub mod blake3 {
    use vstd::prelude::*;
    pub struct Hasher { buf: Vec<u8> }
    pub struct Hash { h: [u8; 32] }
    pub uninterp spec fn spec_h(s: Seq<u8>) -> Hash;
    impl Hasher {
        pub uninterp spec fn fed(&self) -> Seq<u8>;
        #[verifier::external_body]
        pub fn new() -> (r: Hasher) ensures r.fed() == Seq::<u8>::empty() { unimplemented!() }
        #[verifier::external_body]
        pub fn update(&mut self, input: &[u8]) -> (r: &mut Hasher)
            ensures final(self).fed() == old(self).fed() + input@
        { unimplemented!() }
        #[verifier::external_body]
        pub fn finalize(&self) -> (r: Hash) ensures r == spec_h(self.fed()) { unimplemented!() }
    }
}
pub mod serde_json {
    use vstd::prelude::*;
    pub struct Error { x: u8 }
    pub uninterp spec fn spec_to_string(s: Seq<char>) -> Seq<char>;
    #[verifier::external_body]
    pub fn to_string(v: &String) -> (r: Result<String, Error>)
        ensures r is Ok ==> r->Ok_0@ == spec_to_string(v@)
    { unimplemented!() }
}
pub uninterp spec fn str_bytes(s: Seq<char>) -> Seq<u8>;
pub uninterp spec fn le8(x: i64) -> Seq<u8>;
pub assume_specification[ String::as_bytes ](s: &String) -> (r: &[u8])
    ensures r@ == str_bytes(s@);

#[verifier::external_body]
pub fn std_i64_to_le_bytes(x: i64) -> (r: [u8; 8]) ensures r@ == le8(x) { x.to_le_bytes() }

pub struct Node {
    pub id: Uid,
    pub room_id: Option<Uid>,
    pub cdate: i64,
    pub mdate: i64,
    pub _entity: String,
    pub _json: Option<String>,
    pub _binary: Option<Vec<u8>>,
    pub verifying_key: Vec<u8>,
    pub _signature: Vec<u8>,
    pub _local_id: Option<i64>,
}
pub open spec fn node_enc(n: Node) -> Seq<u8> {
    n.id@
    + (match n.room_id { Some(r) => r@, None => Seq::<u8>::empty() })
    + le8(n.cdate) + le8(n.mdate) + str_bytes(n._entity@)
    + (match n._json { Some(j) => str_bytes(serde_json::spec_to_string(j@)), None => Seq::<u8>::empty() })
    + (match n._binary { Some(b) => b@, None => Seq::<u8>::empty() })
    + n.verifying_key@
}
impl Node {
    pub fn hash(&self) -> (r: Result<blake3::Hash>)
        ensures r is Ok ==> r->Ok_0 == blake3::spec_h(node_enc(*self))
    {
        let mut hasher = blake3::Hasher::new();
        hasher.update(&self.id);
        if let Some(rid) = &self.room_id {
            hasher.update(rid);
        }
        hasher.update(&std_i64_to_le_bytes(self.cdate));
        hasher.update(&std_i64_to_le_bytes(self.mdate));
        hasher.update(self._entity.as_bytes());

        if let Some(v) = &self._json {
            let serialized = serde_json::to_string(v)?;
            hasher.update(serialized.as_bytes());
        }

        if let Some(v) = &self._binary {
            hasher.update(v);
        }

        hasher.update(&self.verifying_key);
        Ok(hasher.finalize())
    }

}
} // verus!
fn main() {}
