#![feature(allocator_api)]
use vstd::prelude::*;
use vstd::std_specs::hash::*;
use std::collections::{HashMap, HashSet, VecDeque};
use std::alloc::Allocator;
verus! {
pub mod trusted {
    use vstd::prelude::*;
    use vstd::std_specs::hash::*;
    #[verifier::external_body]
    pub broadcast proof fn axiom_uid_key_model() ensures #[trigger] obeys_key_model::<[u8;16]>() {}
    #[verifier::external_body]
    pub broadcast proof fn axiom_circ_key_model() ensures #[trigger] obeys_key_model::<[u8;32]>() {}
}
broadcast use {vstd::std_specs::hash::group_hash_axioms, trusted::axiom_uid_key_model, trusted::axiom_circ_key_model};
pub type Uid = [u8; 16];

pub assume_specification<T, A: std::alloc::Allocator> [std::collections::VecDeque::<T, A>::is_empty] (v: &std::collections::VecDeque<T, A>) -> (r: bool)
    ensures r == (v@.len() == 0);

pub assume_specification<'a, K, V, S, A, Q> [std::collections::HashMap::<K, V, S, A>::get_mut] (m: &'a mut std::collections::HashMap<K, V, S, A>, k: &Q) -> (r: std::option::Option<&'a mut V>)
           where
           A: std::alloc::Allocator,
           K: std::cmp::Eq + std::hash::Hash + std::borrow::Borrow<Q>,
           Q: std::marker::MetaSized + std::hash::Hash + std::cmp::Eq + ?Sized,
           S: std::hash::BuildHasher;

pub mod mpsc {
    use vstd::prelude::*;
    pub struct UnboundedSender<T> { x: Option<T> }
    pub struct SendError { x: u8 }
    impl<T> UnboundedSender<T> {
        #[verifier::external_body]
        pub fn send(&self, t: T) -> Result<(), SendError> { unimplemented!() }
    }
    pub struct Receiver<T> { x: Option<T> }
    impl<T> Receiver<T> {
        #[verifier::external_body]
        pub async fn recv(&mut self) -> Option<T> { unimplemented!() }
    }
}
pub enum SyncLockMessage {
    RequestLock([u8; 32], VecDeque<Uid>, mpsc::UnboundedSender<Uid>),
    Unlock(Uid),
}
struct PeerLockRequest {
    rooms: VecDeque<Uid>,
    reply: mpsc::UnboundedSender<Uid>,
}
#[verifier::external_body]
fn cut_merge_rooms(lock_request: &mut PeerLockRequest, rooms: VecDeque<Uid>) { unimplemented!() }
pub struct RoomLockService { x: u8 }
impl RoomLockService {
#[verifier::exec_allows_no_decreases_clause]
async fn lifted_start_block(receiver0: mpsc::Receiver<SyncLockMessage>, max_lock: usize) {
    let mut receiver = receiver0;

            let mut peer_lock_request: HashMap<[u8; 32], PeerLockRequest> = HashMap::new();
            let mut peer_queue: VecDeque<[u8; 32]> = VecDeque::new();
            let mut locked: HashSet<Uid> = HashSet::new();
            let mut avalaible = max_lock;

            while let Some(msg) = receiver.recv().await
                invariant locked@.len() + avalaible == max_lock,
            {
                match msg {
                    SyncLockMessage::RequestLock(circuit, rooms, reply) => {
                        if let Some(lock_request) = peer_lock_request.get_mut(&circuit) {
                            lock_request.reply = reply;
                            cut_merge_rooms(lock_request, rooms);
                        } else {
                            peer_lock_request.insert(circuit, PeerLockRequest { reply, rooms });
                            peer_queue.push_front(circuit);
                        }
                        let avail_iter = avalaible;
                        for i in 0..avail_iter
                            invariant locked@.len() + avalaible == max_lock, avalaible + i >= avail_iter,
                        {
                            Self::acquire_lock(
                                &mut peer_lock_request,
                                &mut peer_queue,
                                &mut locked,
                                &mut avalaible,
                            );
                        }
                    }
                    SyncLockMessage::Unlock(room) => {
                        if locked.remove(&room) {
                            avalaible += 1;
                            Self::acquire_lock(
                                &mut peer_lock_request,
                                &mut peer_queue,
                                &mut locked,
                                &mut avalaible,
                            );
                        }
                    }
                }
            }
        
}
#[verifier::exec_allows_no_decreases_clause]
    fn acquire_lock(
        peer_lock_request: &mut HashMap<[u8; 32], PeerLockRequest>,
        peer_queue: &mut VecDeque<[u8; 32]>,
        locked: &mut HashSet<Uid>,
        avalaible: &mut usize,
    )
        requires *old(avalaible) >= 1, old(locked)@.len() + *old(avalaible) <= usize::MAX,
        ensures final(locked)@.len() + *final(avalaible) == old(locked)@.len() + *old(avalaible),
                *final(avalaible) + 1 >= *old(avalaible),
                old(locked)@.subset_of(final(locked)@),
    {
        let ghost granted = false;
        for _ in 0..peer_queue.len()
            invariant_except_break *avalaible == *old(avalaible), old(locked)@ == locked@,
            invariant *old(avalaible) >= 1, old(locked)@.len() + *old(avalaible) <= usize::MAX,
            ensures locked@.len() + *avalaible == old(locked)@.len() + *old(avalaible),
                    *avalaible + 1 >= *old(avalaible), old(locked)@.subset_of(locked@),
        {
            if let Some(peer) = peer_queue.pop_back() {
                if let Some(mut lock_request) = peer_lock_request.remove(&peer) {
                    let mut lock_aquired = false;
                    for _ in 0..lock_request.rooms.len()
                        invariant_except_break *avalaible == *old(avalaible), old(locked)@ == locked@, !lock_aquired,
                        invariant *old(avalaible) >= 1, old(locked)@.len() + *old(avalaible) <= usize::MAX,
                        ensures locked@.len() + *avalaible == old(locked)@.len() + *old(avalaible),
                                *avalaible + 1 >= *old(avalaible), old(locked)@.subset_of(locked@),
                                !lock_aquired ==> (*avalaible == *old(avalaible) && old(locked)@ == locked@),
                    {
                        if let Some(room) = lock_request.rooms.pop_back() {
                            if locked.contains(&room) {
                                lock_request.rooms.push_front(room);
                            } else if lock_request.reply.send(room).is_ok() {
                                locked.insert(room);
                                *avalaible -= 1;
                                lock_aquired = true;
                                break;
                            }
                        }
                    }
                    if !lock_request.rooms.is_empty() {
                        peer_lock_request.insert(peer, lock_request);
                        peer_queue.push_front(peer);
                    }
                    if lock_aquired {
                        break;
                    }
                }
            }
        }
    }

}
} // verus!
fn main() {}
