use vstd::prelude::*;
use vstd::std_specs::iter::IteratorSpec;
verus! {

pub struct User {
    pub verifying_key: Vec<u8>,
    pub date: i64,
    pub enabled: bool,
}

pub open spec fn last_at(s: Seq<User>, date: i64) -> Option<User>
    decreases s.len()
{
    if s.len() == 0 { None }
    else if s.last().date <= date { Some(s.last()) }
    else { last_at(s.drop_last(), date) }
}

// first index from the end
proof fn lemma_last_at_none(s: Seq<User>, date: i64)
    requires forall|i: int| 0 <= i < s.len() ==> !(#[trigger] s[i]).date <= date || s[i].date > date,
             forall|i: int| 0 <= i < s.len() ==> (#[trigger] s[i]).date > date,
    ensures last_at(s, date) is None
    decreases s.len()
{
    if s.len() > 0 {
        assert(s.last() == s[s.len()-1]);
        lemma_last_at_none(s.drop_last(), date);
    }
}

proof fn lemma_last_at_some(s: Seq<User>, date: i64, k: int)
    requires 0 <= k < s.len(), s[k].date <= date,
             forall|i: int| k < i < s.len() ==> (#[trigger] s[i]).date > date,
    ensures last_at(s, date) == Some(s[k])
    decreases s.len()
{
    if k == s.len() - 1 {
    } else {
        assert(s.last().date > date);
        lemma_last_at_some(s.drop_last(), date, k);
    }
}

pub fn probe(val: &Vec<User>, date: i64) -> (r: bool)
    ensures r == match last_at(val@, date) { Some(u) => u.enabled, None => false }
{
    let user_opt = val.iter().rev().find(|user| -> (b: bool) ensures b == (user.date <= date) { user.date <= date });
    proof {
        let rem = val@.as_ref().reverse();
        assert(rem.len() == val@.len());
        assert(forall|i:int| 0<=i<val@.len() ==> *(#[trigger] rem[i]) == val@[val@.len()-1-i]);
        match user_opt {
            Some(user) => {
                assert(exists|idx: int| 0 <= idx < rem.len() && #[trigger] rem[idx] == user && (forall|j:int| 0 <= j < idx ==> !((#[trigger] rem[j]).date <= date)));
                let idx = choose|idx: int| 0 <= idx < rem.len() && #[trigger] rem[idx] == user && (forall|j:int| 0 <= j < idx ==> !((#[trigger] rem[j]).date <= date));
                let k = val@.len() - 1 - idx;
                assert(val@[k] == *user);
                assert forall|i: int| k < i < val@.len() implies (#[trigger] val@[i]).date > date by {
                    let j = val@.len() - 1 - i;
                    assert(*rem[j] == val@[i]);
                }
                lemma_last_at_some(val@, date, k);
            }
            None => {
                assert forall|i: int| 0 <= i < val@.len() implies (#[trigger] val@[i]).date > date by {
                    let j = val@.len() - 1 - i;
                    assert(*rem[j] == val@[i]);
                }
                lemma_last_at_none(val@, date);
            }
        }
    }
    match user_opt {
        Some(user) => user.enabled,
        None => false,
    }
}
} // verus!
fn main() {}
