"""Brace/quote/comment aware scanner and item splitter for Rust source text.

No regex over bodies: `mask()` blanks comments and the contents of string / char
literals (same length, newlines kept) so that bracket matching and keyword search
can be done safely on the masked text while offsets stay valid for the original.
"""
import re


class ScanError(Exception):
    pass


def mask(text):
    n = len(text)
    out = list(text)
    i = 0

    def blank(a, b):
        for k in range(a, b):
            if out[k] != '\n':
                out[k] = ' '

    while i < n:
        c = text[i]
        if c == '/' and i + 1 < n and text[i + 1] == '/':
            j = text.find('\n', i)
            if j < 0:
                j = n
            blank(i, j)
            i = j
        elif c == '/' and i + 1 < n and text[i + 1] == '*':
            depth = 1
            j = i + 2
            while j < n and depth > 0:
                if text.startswith('/*', j):
                    depth += 1
                    j += 2
                elif text.startswith('*/', j):
                    depth -= 1
                    j += 2
                else:
                    j += 1
            blank(i, j)
            i = j
        elif c == '"' or (c in 'rb' and _is_str_prefix(text, i)):
            # string literal, possibly raw / byte
            j = i
            while text[j] in 'rb':
                j += 1
            hashes = 0
            raw = 'r' in text[i:j]
            while text[j] == '#':
                hashes += 1
                j += 1
            if text[j] != '"':
                i += 1
                continue
            j += 1
            start = j
            if raw:
                endtok = '"' + '#' * hashes
                k = text.find(endtok, j)
                if k < 0:
                    raise ScanError('unterminated raw string')
                blank(start, k)
                i = k + len(endtok)
            else:
                while j < n and text[j] != '"':
                    if text[j] == '\\':
                        j += 2
                    else:
                        j += 1
                blank(start, j)
                i = j + 1
        elif c == "'":
            # char literal or lifetime
            if i + 2 < n and text[i + 1] == '\\':
                j = text.find("'", i + 2)
                # '\'' case
                if text[i + 2] == "'" and text[i + 3] == "'":
                    j = i + 3
                blank(i + 1, j)
                i = j + 1
            elif i + 2 < n and text[i + 2] == "'":
                blank(i + 1, i + 2)
                i += 3
            else:
                # lifetime or multi-byte char literal
                m = re.match(r"'([^'\\\n])'", text[i:i + 8])
                if m:
                    blank(i + 1, i + m.end() - 1)
                    i += m.end()
                else:
                    i += 1
        else:
            i += 1
    return ''.join(out)


def _is_str_prefix(text, i):
    # r"  r#"  b"  br"  br#"   -- and not part of an identifier
    if i > 0 and (text[i - 1].isalnum() or text[i - 1] == '_'):
        return False
    m = re.match(r'(b?r#*"|b")', text[i:i + 12])
    return m is not None


OPEN = {'{': '}', '(': ')', '[': ']'}
CLOSE = {'}': '{', ')': '(', ']': '['}


def match_close(m, i):
    """m: masked text; i: index of an opening bracket; returns index of its closer."""
    stack = []
    n = len(m)
    j = i
    while j < n:
        c = m[j]
        if c in OPEN:
            stack.append(c)
        elif c in CLOSE:
            if not stack or stack[-1] != CLOSE[c]:
                raise ScanError('unbalanced bracket at %d' % j)
            stack.pop()
            if not stack:
                return j
        j += 1
    raise ScanError('no closing bracket for %d' % i)


class Item:
    def __init__(self, kind, name, attrs_start, start, end, body_start, body_end):
        self.kind = kind
        self.name = name
        self.attrs_start = attrs_start  # start including attributes / docs
        self.start = start  # start of the item proper (visibility keyword)
        self.end = end  # one past last char
        self.body_start = body_start  # index of '{' (or None)
        self.body_end = body_end  # index of matching '}' (or None)

    def key(self):
        if self.kind == 'impl':
            return self.name
        return '%s %s' % (self.kind, self.name)


_KW = ('fn', 'struct', 'enum', 'union', 'trait', 'impl', 'mod', 'const', 'static', 'type', 'use', 'extern', 'macro_rules')
_WORD = re.compile(r'[A-Za-z_][A-Za-z0-9_]*')


def _norm(s):
    return re.sub(r'\s+', ' ', s).strip()


def parse_items(text, m, start, end):
    """Items directly inside text[start:end] (a file or the inside of a mod / impl / trait)."""
    items = []
    i = start
    while True:
        while i < end and m[i].isspace():
            i += 1
        if i >= end:
            break
        attrs_start = i
        # attributes
        while m.startswith('#', i):
            j = i + 1
            if m[j] == '!':
                j += 1
            while m[j].isspace():
                j += 1
            if m[j] != '[':
                raise ScanError('bad attribute at %d' % i)
            i = match_close(m, j) + 1
            while i < end and m[i].isspace():
                i += 1
        if i >= end:
            break
        item_start = i
        # qualifiers
        kind = None
        name = None
        j = i
        while True:
            mm = _WORD.match(m, j)
            if not mm:
                break
            w = mm.group(0)
            if w == 'pub':
                j = mm.end()
                while m[j].isspace():
                    j += 1
                if m[j] == '(':
                    j = match_close(m, j) + 1
            elif w in ('async', 'unsafe', 'default'):
                j = mm.end()
            elif w == 'const':
                # const fn ?  or const item
                k = mm.end()
                while m[k].isspace():
                    k += 1
                m2 = _WORD.match(m, k)
                if m2 and m2.group(0) in ('fn', 'unsafe', 'async'):
                    j = mm.end()
                else:
                    kind = 'const'
                    j = mm.end()
                    break
            elif w == 'extern':
                kind = 'extern'
                j = mm.end()
                break
            elif w in _KW:
                kind = w
                j = mm.end()
                break
            else:
                break
            while m[j].isspace():
                j += 1
        if kind is None:
            # macro invocation or stray token: find end
            mm = re.compile(r'[A-Za-z_][A-Za-z0-9_:]*\s*!').match(m, i)
            if mm:
                k = mm.end()
                while m[k].isspace():
                    k += 1
                # optional ident (macro_rules! name)
                m3 = _WORD.match(m, k)
                if m3:
                    k = m3.end()
                    while m[k].isspace():
                        k += 1
                if m[k] in OPEN:
                    e = match_close(m, k)
                    k2 = e + 1
                    while k2 < end and m[k2] in ' \t':
                        k2 += 1
                    if k2 < end and m[k2] == ';':
                        e = k2
                    items.append(Item('macro', _norm(text[i:mm.end()]), attrs_start, i, e + 1, k, match_close(m, k)))
                    i = e + 1
                    continue
            raise ScanError('cannot classify item at offset %d: %r' % (i, text[i:i + 40]))
        # header: find '{' or ';' at depth 0
        k = j
        body_start = body_end = None
        if kind in ('const', 'static', 'type', 'use', 'extern'):
            # ends at ';' at depth 0 -- extern may have a block
            while k < end:
                c = m[k]
                if c in OPEN:
                    if kind == 'extern' and c == '{':
                        body_start = k
                        body_end = match_close(m, k)
                        k = body_end
                        break
                    k = match_close(m, k) + 1
                    continue
                if c == ';':
                    break
                k += 1
            item_end = k + 1
            mm = _WORD.match(m, j + (len(m[j:]) - len(m[j:].lstrip())))
            name = mm.group(0) if mm else '?'
            if kind == 'const' and name == 'mut':
                pass
        else:
            angle = 0
            while k < end:
                c = m[k]
                if c in '([':
                    k = match_close(m, k) + 1
                    continue
                if c == '{':
                    body_start = k
                    body_end = match_close(m, k)
                    break
                if c == ';':
                    break
                k += 1
            if body_start is not None:
                item_end = body_end + 1
            else:
                item_end = k + 1
            hdr = m[j:k]
            if kind == 'impl':
                name = _norm('impl' + text[j:k] if text[j] in '<' else 'impl ' + text[j:k])
                # strip where-clauses for matching convenience
                name = re.sub(r'\s+where\s.*$', '', name)
            else:
                mm = _WORD.search(hdr)
                name = mm.group(0) if mm else '?'
        items.append(Item(kind, name, attrs_start, item_start, item_end, body_start, body_end))
        i = item_end
    return items


class RustFile:
    def __init__(self, path, text):
        self.path = path
        self.text = text
        self.m = mask(text)

    def find(self, path):
        """path: 'impl Room / fn is_admin' | 'struct User' | 'mod x / fn y' ..."""
        parts = [_norm(p) for p in path.split('/')]
        lo, hi = 0, len(self.text)
        item = None
        chain = []
        for p in parts:
            items = parse_items(self.text, self.m, lo, hi)
            cands = [it for it in items if it.key() == p]
            if not cands:
                raise KeyError('item %r not found in %s (looking for %r)' % (p, self.path, path))
            if len(cands) > 1:
                # several impl blocks of the same type: search all of them for the next part
                nxt = parts[len(chain) + 1] if len(chain) + 1 < len(parts) else None
                found = None
                if nxt:
                    for c in cands:
                        sub = parse_items(self.text, self.m, c.body_start + 1, c.body_end)
                        if any(it.key() == nxt for it in sub):
                            found = c
                            break
                if found is None:
                    found = cands[0]
                item = found
            else:
                item = cands[0]
            chain.append(item)
            if item.body_start is not None:
                lo, hi = item.body_start + 1, item.body_end
        return chain

    def line_of(self, off):
        return self.text.count('\n', 0, off) + 1
