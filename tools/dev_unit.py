#!/usr/bin/env python3
"""developer helper: run ONE unit against another source tree with its own build directory (so that it cannot disturb a check that is
running on /repo).  usage: dev_unit.py <unit> <tree> [build_dir]"""
import sys, os, tempfile
sys.path.insert(0, os.path.dirname(os.path.abspath(__file__)))
import driver
unit, tree = sys.argv[1], sys.argv[2]
bd = sys.argv[3] if len(sys.argv) > 3 else tempfile.mkdtemp(prefix='verif_dev_', dir='/var/tmp')
us = driver.all_units()
u = us.get(unit) or next(v for k, v in us.items() if k.startswith(unit))
r = driver.run_unit(u['path'], tree, 0, build_dir=bd)
print('status:', r['status'], r.get('reason') or '')
for m in r.get('failures', []):
    print('FAIL', m['obligation'], m.get('message', '')[:200])
print('build dir:', bd)
