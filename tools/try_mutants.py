#!/usr/bin/env python3
"""developer helper: run the kill mutants whose name matches a regex (all units named by the mutant) and print what they hit"""
import sys, re, json, os
sys.path.insert(0, os.path.dirname(os.path.abspath(__file__)))
import driver
pat = re.compile(sys.argv[1])
which = sys.argv[2] if len(sys.argv) > 2 else 'mutants.json'
muts = [m for m in json.load(open(os.path.join(driver.VERIF, 'mutants', which))) if pat.search(m['name'])]
units = driver.all_units()
for r in driver.run_mutants(muts, units, 0):
    print(('KILLED ' if r['killed'] else 'ALIVE  ') + r['name'], r.get('obligations') or r.get('note') or '')
