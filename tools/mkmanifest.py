#!/usr/bin/env python3
"""Regenerates /verif/MANIFEST.json from contracts/properties.json (claimed properties) and contracts/not_applicable.json."""
import json
import os
import sys

V = os.path.dirname(os.path.dirname(os.path.abspath(__file__)))
sys.path.insert(0, os.path.join(V, 'tools'))
import driver

props = [json.loads(l)['id'] for l in open(os.path.join(V, 'properties.jsonl'))]
meta = json.load(open(os.path.join(V, 'contracts', 'properties.json')))
na = json.load(open(os.path.join(V, 'contracts', 'not_applicable.json')))
units = driver.all_units()
kani_props = set(p for h in json.load(open(os.path.join(V, 'contracts', 'kani_harnesses.json'))) for p in h.get('props', []))
checks = []
claimed = [p for p in props if p in meta and meta[p].get('claimed', True)]
for p in claimed:
    m = meta[p]
    us = sorted(n for n, u in units.items() if p in u['props'])
    checks.append({
        'property_id': p,
        'quick_cmd': './check %s --tier quick' % p,
        'thorough_cmd': './check %s --tier thorough' % p,
        'evidence_file': 'evidence/%s.json' % p,
        'replay_cmd_template': './check %s --replay {path}' % p,
        'engine': 'verus',
        'level_claimed': {'category': 'proof', 'text': m['level_text'], 'design_ref': m.get('design_ref', 'DESIGN.md section 5')},
        'level_note': m['level_note'],
        'technique': (('Kani/CBMC harnesses on the real functions of the crate (complete loop-free proofs over a full input domain where the evidence says so; the others bounded stand-ins, labelled bounded, never counted as proved)' + ('; plus ' if us else '')) if p in kani_props else '')
                     + ('contract-based deductive verification (Verus, SMT) of the real functions extracted mechanically from /repo on every run; units: ' + ', '.join(us) if us else ''),
    })
man = {
    'version': 1,
    'setup_cmd': './setup.sh',
    'hooks': {
        'guard': 'none',
        'enable': 'no hooks in /repo: contracts live in /verif/contracts and are woven into unit files generated from /repo on every run',
        'baseline_off_cmd': 'cd /repo && cargo test --workspace --no-fail-fast --offline',
        'source_commits': [],
        'add_only': True,
    },
    'engines': [{'name': 'verus', 'path': '/usr/local/bin/verus', 'serves_properties': claimed,
                 'kind_free_text': 'deductive verifier (SMT, z3): discharges the contracts woven into the real functions extracted from /repo on every run'}],
    'checks': checks,
    'not_applicable': [{'property_id': p, 'reason': na[p]} for p in props if p not in claimed],
    'notes': 'exit 0 = every obligation discharged (KNOWN-FINDING lines for listed findings); exit 1 = VIOLATION line; exit 2 = undecided (lost anchor, front-end error, resource limit), never an alarm. See DESIGN.md.',
}
missing = [p for p in props if p not in claimed and p not in na]
if missing:
    print('no not_applicable reason for', missing)
    sys.exit(1)
json.dump(man, open(os.path.join(V, 'MANIFEST.json'), 'w'), indent=1)
print('manifest: %d checks, %d not applicable' % (len(checks), len(man['not_applicable'])))
