#!/usr/bin/env python3
"""Re-base the seeded patches onto /repo's HEAD after new fix commits: each patch is applied on the commit it was written
against (<base>), committed in a scratch worktree, cherry-picked onto HEAD (3-way, so hunks land in the function they were
written for even when line numbers and twin functions moved) and re-exported.  usage: rebase_seeded.py <base-commit> <worktree> [seed ids]"""
import glob, os, subprocess, sys
V = os.path.dirname(os.path.dirname(os.path.abspath(__file__)))
base, wt = sys.argv[1], sys.argv[2]
only = set(sys.argv[3:])
def sh(cmd):
    return subprocess.run(cmd, shell=True, cwd=wt, capture_output=True, text=True)
new = subprocess.run('git -C /repo rev-parse HEAD', shell=True, capture_output=True, text=True).stdout.strip()
for d in sorted(glob.glob(os.path.join(V, 'seeded', 'C*-*'))):
    sid = os.path.basename(d)
    if only and sid not in only:
        continue
    p = os.path.join(d, 'patch.diff')
    sh('git checkout -q -- . ; git clean -fdq -e target; git checkout -q --detach %s' % base)
    a = sh('git apply %s' % p)
    if a.returncode != 0:
        print(sid, 'does not apply on', base, '(already re-based?)'); continue
    sh('git -c user.name=x -c user.email=x@x commit -qam seed')
    s = sh('git rev-parse HEAD').stdout.strip()
    sh('git checkout -q --detach %s' % new)
    c = sh('git cherry-pick -n %s' % s)
    if c.returncode != 0:
        print(sid, 'CONFLICT'); sh('git cherry-pick --abort; git reset -q --hard'); continue
    diff = sh('git diff --cached').stdout
    open(p, 'w').write(diff)
    sh('git reset -q --hard')
    print(sid, 'ok')
sh('git checkout -q --detach %s' % new)
