"""Run Verus on a generated unit and map its diagnostics back to obligation ids."""
import json
import os
import re
import subprocess
import time

VERUS = os.environ.get('VERUS_BIN', 'verus')

# messages that mean "the solver refuted / could not prove a proof obligation"
FAIL_PATTERNS = [
    'postcondition not satisfied',
    'precondition not satisfied',
    'assertion failed',
    'invariant not satisfied',
    'possible arithmetic underflow/overflow',
    'possible division by zero',
    'decreases not satisfied',
    'could not prove termination',
    'possible bit shift underflow/overflow',
    'unable to prove',
    'failed to satisfy',
    'cannot show invariant holds',
    'loop invariant',
    'unreachable',
    'requires not satisfied',
    'constructed value may fail to meet its declared type invariant',
    'assertion not satisfied',
    'assert_by',
    'possible overflow',
    'explicit panic',
    'call to panic',
    'cannot prove',
]
RESOURCE_PATTERNS = ['Resource limit', 'rlimit', 'timed out', 'solver timeout', 'z3 crashed']
IGNORE_PATTERNS = ['aborting due to', 'could not compile']


def classify(msg):
    for p in IGNORE_PATTERNS:
        if p in msg:
            return 'ignore'
    for p in RESOURCE_PATTERNS:
        if p in msg:
            return 'resource'
    for p in FAIL_PATTERNS:
        if p in msg:
            return 'fail'
    return 'frontend'


def slug(s):
    return re.sub(r'[^a-z0-9]+', '-', s.lower()).strip('-')[:40]


def run_verus(path, seed=0, rlimit=None, expand=False, extra=None, timeout=900):
    cmd = [VERUS, path, '--output-json', '--time', '--multiple-errors', '25',
           '--smt-option', 'smt.random_seed=%d' % (seed % 1000003), '--smt-option', 'sat.random_seed=%d' % (seed % 1000003)]
    if rlimit:
        cmd += ['--rlimit', str(rlimit)]
    if expand:
        cmd += ['--expand-errors']
    if extra:
        cmd += extra
    cmd += ['--', '--error-format=json']
    t0 = time.time()
    env = dict(os.environ)
    try:
        p = subprocess.run(cmd, capture_output=True, text=True, timeout=timeout, env=env,
                           cwd=os.path.dirname(path) or '.')
        out, err, rc = p.stdout, p.stderr, p.returncode
    except subprocess.TimeoutExpired as e:
        out, err, rc = '', 'verus timed out after %ds' % timeout, 124
    wall = time.time() - t0
    res = {'cmd': ' '.join(cmd), 'rc': rc, 'wall_s': wall, 'json': None, 'diags': [], 'raw_stderr': err}
    try:
        res['json'] = json.loads(out) if out.strip() else None
    except Exception:
        # output-json may be preceded by other text
        k = out.find('{')
        try:
            res['json'] = json.loads(out[k:])
        except Exception:
            res['json'] = None
    for ln in err.split('\n'):
        ln = ln.strip()
        if ln.startswith('{'):
            try:
                d = json.loads(ln)
            except Exception:
                continue
            if d.get('$message_type') == 'diagnostic':
                res['diags'].append(d)
    return res


def map_diag(ub, d):
    """diagnostic -> dict(kind, obligation, props, message, owner, rendered, where)"""
    msg = d.get('message', '')
    kind = classify(msg) if d.get('level') == 'error' else 'note'
    spans = d.get('spans', [])
    prim = [s for s in spans if s.get('is_primary')]
    psp = prim[0] if prim else (spans[0] if spans else None)
    owner = None
    where = None
    clause = None
    callee_clause = None

    def origin(line):
        if 1 <= line <= len(ub.origin):
            return ub.origin[line - 1]
        return {'k': 'unknown'}

    def clause_at(sp):
        for cl in ub.clauses:
            if cl.gen_lines and cl.gen_lines[0] <= sp['line_start'] <= cl.gen_lines[1]:
                return cl
        return None

    if psp is not None:
        o = origin(psp['line_start'])
        owner = o.get('owner')
        if o.get('k') == 'code':
            where = '%s:%d' % (o['file'], o['src_line'])
        elif o.get('k') == 'prelude':
            where = 'template:%d' % o['tline']
            owner = prelude_owner(ub, psp['line_start'])
    # clause lookup: prefer spans labelled as the failed clause
    ranked = sorted(spans, key=lambda s: (0 if 'failed' in (s.get('label') or '') else 1, 0 if s.get('is_primary') else 1))
    for sp in ranked:
        cl = clause_at(sp)
        if cl is not None:
            clause = cl
            break
    if owner is None and clause is not None:
        owner = clause.id.split('#')[0]
    src_text = ''
    if psp is not None and psp.get('text'):
        src_text = ' '.join(t['text'].strip() for t in psp['text'][:1])
    oid = None
    props = None
    if clause is not None and owner is not None and clause.id.split('#')[0] == owner:
        oid = clause.id
        props = clause.props
    elif clause is not None and owner is not None:
        oid = '%s#pre(%s)@%s' % (owner, clause.id, slug(src_text))
        callee_clause = clause
    elif owner is not None:
        oid = '%s#%s@%s' % (owner, slug(msg), slug(src_text))
        # a failed `requires` of a prelude stub that carries a `// [label]{props} ..` comment on the line above: named obligation
        LABEL = re.compile(r'^\s*//\s*\[([A-Za-z0-9_.\-]+)\](?:\{([A-Z0-9,\s]+)\})?\s*(.*)$')
        for sp in spans:
            if 'failed' in (sp.get('label') or ''):
                ln = sp['line_start']
                for cand in (ln - 2, ln - 1):
                    if 0 <= cand < len(ub.lines):
                        mm = LABEL.match(ub.lines[cand])
                        if mm:
                            oid = '%s#%s' % (owner, mm.group(1))
                            if mm.group(2):
                                props = [x.strip() for x in mm.group(2).split(',') if x.strip()]
                            break
    else:
        oid = '%s/?#%s@%s' % (ub.name, slug(msg), slug(src_text))
    if props is None:
        props = owner_props(ub, owner)
    return {'kind': kind, 'obligation': oid, 'props': props, 'message': msg, 'owner': owner, 'where': where,
            'rendered': d.get('rendered', ''), 'src_text': src_text,
            'callee_clause': callee_clause.id if callee_clause else None}


def prelude_owner(ub, gen_line):
    # nearest preceding obligation marker or fn header
    best = None
    for po in ub.prelude_obligations:
        if po['gen_line'] <= gen_line:
            best = po
    k = gen_line - 1
    fn = None
    while k >= 0:
        mm = re.search(r'\bfn\s+([A-Za-z0-9_]+)', ub.lines[k])
        if mm and ub.origin[k].get('k') == 'prelude':
            fn = (k + 1, mm.group(1))
            break
        k -= 1
    if best and (fn is None or best['gen_line'] >= fn[0] - 3):
        return best['id']
    if fn:
        return '%s/prelude::%s' % (ub.name, fn[1])
    return '%s/prelude' % ub.name


def owner_props(ub, owner):
    for ex in ub.extracts:
        if ex['owner'] == owner:
            return ex['props']
    for po in ub.prelude_obligations:
        if po['id'] == owner:
            return po['props']
    return ub.props


def function_breakdown(res):
    out = []
    j = res.get('json') or {}
    try:
        for mod in j['times-ms']['smt']['smt-run-module-times']:
            for f in mod.get('function-breakdown', []):
                out.append({'function': f['function'], 'mode': f.get('mode:', f.get('mode')), 'ms': f.get('time-micros', 0) / 1000.0,
                            'rlimit': f.get('rlimit'), 'success': f.get('success')})
    except Exception:
        pass
    return out
