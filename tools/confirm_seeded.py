#!/usr/bin/env python3
"""Confirm a seeded change independently: in a scratch worktree of /repo (HEAD), (1) demo alone passes on unchanged code,
(2) with the patch: crate compiles, the 158 baseline tests pass, the demo fails.  usage: confirm_seeded.py <change dir> <worktree>
Writes <change dir>/confirmed.json."""
import json, os, re, subprocess, sys

chg, wt = os.path.abspath(sys.argv[1]), sys.argv[2]
meta = json.load(open(os.path.join(chg, 'meta.json')))
modtxt = open(os.path.join(chg, 'demo_mod.txt')).read()


def sh(cmd, **kw):
    return subprocess.run(cmd, shell=True, cwd=wt, capture_output=True, text=True, **kw)


sh('git checkout -- . && git clean -fdq -e target')
# place demo file + mod line
demo_name = meta.get('demo_test_name', '')
cands = re.findall(r'(src/[\w/]*(?:mod|lib)\.rs)', modtxt)
modfile = cands[0] if cands else 'src/lib.rs'
mm = re.search(r'mod\s+(seeded_demo_\w+)', modtxt)
modname = mm.group(1) if mm else 'seeded_demo_1'
pathattr = ''
pm = re.search(r'#\[path\s*=\s*"([^"]+)"\]', modtxt)
if pm:
    # child module of a non-mod file: `#[path = ".."] mod x;` appended to the END of the source file the text names
    allsrc = [c for c in re.findall(r'(src/[\w/]+\.rs)', modtxt) if 'seeded_demo' not in c]
    pref = [c for c in allsrc if os.path.basename(c) not in ('mod.rs', 'lib.rs')]
    if pref or allsrc:
        modfile = (pref or allsrc)[0]
        pathattr = '#[path = "%s"]\n' % pm.group(1)
# demo location: sibling of modfile
ddir = os.path.dirname(modfile)
open(os.path.join(wt, ddir, modname + '.rs'), 'w').write(open(os.path.join(chg, 'demo.rs')).read())
with open(os.path.join(wt, modfile), 'a') as f:
    f.write('\n#[cfg(test)]\n%smod %s;\n' % (pathattr, modname))
res = {'modfile': modfile, 'modname': modname}
r = sh('cargo test --offline --lib %s 2>&1 | tail -15' % modname, timeout=3600)
res['demo_without_change'] = r.stdout[-1500:]
res['demo_passes_without_change'] = bool(re.search(r'test result: ok\. [1-9]\d* passed; 0 failed', r.stdout))
r = sh('git apply %s' % os.path.join(chg, 'patch.diff'))
res['patch_applies'] = r.returncode == 0
r = sh('cargo test --offline --lib 2>&1 | tail -25', timeout=3600)
res['suite_with_change'] = r.stdout[-2500:]
mm = re.search(r'test result: \w+\. (\d+) passed; (\d+) failed', r.stdout)
res['passed'], res['failed'] = (int(mm.group(1)), int(mm.group(2))) if mm else (None, None)
failed_names = re.findall(r'^\s+(\S+seeded_demo\S*)\s*$', r.stdout, re.M) + re.findall(r'test (\S+) \.\.\. FAILED', r.stdout)
res['failed_tests'] = sorted(set(failed_names))
res['baseline_tests_pass_with_change'] = (res['passed'] == 158 and res['failed'] == 1) or (res['passed'] is not None and res['passed'] >= 158 and all('seeded_demo' in n for n in res['failed_tests']))
res['demo_fails_with_change'] = bool(res['failed'])
res['confirmed'] = bool(res['demo_passes_without_change'] and res['patch_applies'] and res['baseline_tests_pass_with_change'] and res['demo_fails_with_change'])
sh('git checkout -- . && git clean -fdq -e target')
json.dump(res, open(os.path.join(chg, 'confirmed.json'), 'w'), indent=1)
print(chg, 'confirmed' if res['confirmed'] else 'NOT CONFIRMED', res['passed'], res['failed'], res['failed_tests'])
