"""Template processor: prelude + `//@` directives  ->  one Verus file generated from /repo.

A unit template (/verif/contracts/<unit>.rs) is Rust text (the prelude: stubs, assumed
specs, spec functions, lemmas) with directive blocks that say which real item of /repo
is pasted at that place and which annotations are woven into it.  See DESIGN.md section 2.2
for the complete list of transformations (E1..E12); every transformation applied is
recorded in the unit's `transformations` list and repeated in the evidence file.

Directives (one per line, `//@ ` prefix; payload = the following non-directive lines):

  //@ unit <name> props C01 C02 ...
  //@ obligation <id> [props C06] : free text          tags the prelude fn that follows
  //@ extract <file> :: <item path> [as <alias>] [props C01,C02]
  //@   result <name>                                   E4
  //@   sync                                            E11 (await-free async fn)
  //@   attr <text>                                     attribute placed before the item
  //@   spec                                            payload: requires/ensures/decreases
  //@   loop "<header text>" [#n] [iter <name>]         E5; payload: invariant/decreases
  //@   closure "<param text>" [#n] [as "<new params>"] [ret <type>]   E6
  //@   insert before-stmt|after-stmt|before-text|after-text|body-start|body-end "<anchor>" [#n]   E7; payload: ghost code
  //@   insert-each ... [optional]: every occurrence (identifier anchors match whole words); `optional` tolerates zero occurrences
  //@   rewrite <rule> "<regex>" => "<replacement>" [xN]    E8/E11/E12 (rule named, counted)
  //@   lift-range "<first stmt>" .. "<stmt after the last>" :: <fn signature>    E9 (statement range lifted to a function)
  //@   lift "<anchor>" [#n] fn <signature text>        E9: body of the block opened after the anchor becomes a fn
  //@   rename <newname>                                item is emitted under another name (struct/fn)
  //@   fields-only                                     struct: keep as is (default) ;
  //@ end
"""
import hashlib
import json
import os
import re
import shlex

from rustscan import RustFile, mask, match_close, parse_items, ScanError, _norm


class WeaveError(Exception):
    """Lost anchor, unsupported construct, missing item: exit 2, never an alarm."""


SECTION_KW = ('requires', 'ensures', 'decreases', 'invariant_except_break', 'invariant', 'recommends', 'no_unwind')


def split_top(s, sep=','):
    """split on top-level separators (brackets and closures-bars-agnostic: only ()[]{} depth)."""
    m = mask(s)
    parts = []
    depth = 0
    last = 0
    i = 0
    n = len(s)
    while i < n:
        c = m[i]
        if c in '([{':
            depth += 1
        elif c in ')]}':
            depth -= 1
        elif c == sep and depth == 0:
            parts.append((last, i))
            last = i + 1
        i += 1
    parts.append((last, n))
    return parts


class Clause:
    def __init__(self, oid, kind, text, desc, props):
        self.id = oid
        self.kind = kind
        self.text = text
        self.desc = desc
        self.props = props
        self.gen_lines = None  # (first, last) in generated file
        self.assumed = False  # clause of a use-contract stub: assumed in this unit, proved in the unit it comes from


LABEL = re.compile(r'^\s*//\s*\[([A-Za-z0-9_.\-]+)\](?:\{([A-Z0-9,\s]+)\})?\s*(.*)$')


def parse_clauses(payload_lines, owner, default_props, prefix=''):
    """payload (list of lines) -> list of (line_text, clause or None) preserving text,
    and the clause objects.  Clauses = top-level comma separated pieces of each section."""
    text = '\n'.join(payload_lines)
    m = mask(text)
    # find section keywords at line starts
    secs = []
    for mm in re.finditer(r'(?m)^[ \t]*(' + '|'.join(SECTION_KW) + r')\b', m):
        secs.append((mm.start(1), mm.end(1), mm.group(1)))
    clauses = []
    spans = []  # (start,end,clause)
    counters = {}
    for k, (s, e, kw) in enumerate(secs):
        stop = secs[k + 1][0] if k + 1 < len(secs) else len(text)
        body = text[e:stop]
        for (a, b) in split_top(body):
            piece = body[a:b]
            if not mask(piece).strip():
                continue
            # label: a comment line inside the piece of form // [id]{props} text
            cid = None
            desc = ''
            props = list(default_props)
            for ln in piece.split('\n'):
                lm = LABEL.match(ln)
                if lm:
                    cid = lm.group(1)
                    if lm.group(2):
                        props = [p.strip() for p in lm.group(2).split(',') if p.strip()]
                    desc = lm.group(3).strip()
            short = {'requires': 'req', 'ensures': 'ens', 'invariant': 'inv', 'invariant_except_break': 'inv',
                     'decreases': 'dec', 'recommends': 'rec', 'no_unwind': 'nounwind'}[kw]
            counters[short] = counters.get(short, 0) + 1
            if cid is None:
                cid = '%s%s%d' % (prefix, short, counters[short])
            else:
                cid = prefix + cid
            # span of the code part (strip leading comment/blank lines)
            code = mask(piece)
            lead = len(code) - len(code.lstrip())
            trail = len(code.rstrip())
            cl = Clause('%s#%s' % (owner, cid), kw, _norm(re.sub(r'//[^\n]*', '', piece)), desc, props)
            clauses.append(cl)
            spans.append((e + a + lead, e + a + trail, cl))
    return text, spans, clauses


class Extract:
    def __init__(self, file, path, alias, props, tline):
        self.file = file
        self.path = path
        self.alias = alias
        self.props = props
        self.tline = tline
        self.directives = []  # (name, args(list), payload(list of lines), tline)


def parse_template(path):
    lines = open(path).read().split('\n')
    out = []  # ('text', line, tline) | ('extract', Extract) | ('obligation', id, props, text, tline)
    unit = {'name': os.path.splitext(os.path.basename(path))[0], 'props': []}
    i = 0
    cur = None
    curdir = None
    while i < len(lines):
        ln = lines[i]
        st = ln.strip()
        if st.startswith('//@'):
            body = st[3:].strip()
            try:
                if body.startswith('obligation'):
                    toks = body.split(':', 1)[0].split()
                else:
                    toks = shlex.split(body, posix=True)
            except ValueError as e:
                raise WeaveError('%s:%d: bad directive quoting: %s' % (path, i + 1, e))
            if not toks:
                i += 1
                continue
            d = toks[0]
            if cur is None:
                if d == 'unit':
                    unit['name'] = toks[1]
                    if 'props' in toks:
                        rest = toks[toks.index('props') + 1:]
                        if 'also' in rest:
                            unit['also'] = rest[rest.index('also') + 1:]
                            rest = rest[:rest.index('also')]
                        unit['props'] = rest
                elif d == 'obligation':
                    oid = toks[1]
                    props = None
                    rest = body.split(':', 1)
                    if 'props' in toks:
                        k = toks.index('props')
                        props = [t.strip(',') for t in toks[k + 1:] if re.match(r'^C\d+,?$', t)]
                    out.append(('obligation', oid, props, rest[1].strip() if len(rest) > 1 else '', i + 1))
                elif d == 'include':
                    ipath = os.path.join(os.path.dirname(path), toks[1])
                    u2, sub = parse_template(ipath)
                    opaque = []
                    if 'opaque' in toks:
                        opaque = [x for t in toks[toks.index('opaque') + 1:] for x in t.split(',') if x]
                    for nd in sub:
                        if nd[0] == 'text':
                            ln2 = nd[1]
                            mm = re.match(r'\s*pub (?:closed|open) spec fn (\w+)\b', ln2)
                            if mm and mm.group(1) in opaque:
                                # this unit sees the function only through contracts proved elsewhere: hide its body from the solver
                                out.append(('text', '#[verifier::opaque]', i + 1))
                            out.append(('text', ln2, i + 1))
                        else:
                            out.append(nd)
                elif d == 'use-contract':
                    # //@ use-contract <template file> :: <alias> [props ...]
                    k = toks.index('::')
                    tfile = os.path.join(os.path.dirname(path), toks[1])
                    alias = toks[k + 1]
                    u2, sub = parse_template(tfile)
                    found = None
                    for nd in sub:
                        if nd[0] == 'extract':
                            ex2 = nd[1]
                            if (ex2.alias or default_alias(ex2.path)) == alias:
                                found = ex2
                    if found is None:
                        raise WeaveError('%s:%d: contract %s not found in %s' % (path, i + 1, alias, toks[1]))
                    stub = Extract(found.file, found.path, found.alias, None, i + 1)
                    stub.directives = [d2 for d2 in found.directives if d2[0] in ('result', 'spec', 'sync', 'rename')]
                    if 'only' in toks:
                        labels = toks[toks.index('only') + 1].split(',')
                        stub.directives = [filter_spec(d2, labels) if d2[0] == 'spec' else d2 for d2 in stub.directives]
                    stub.stub_of = u2['name']
                    if 'props' in toks:
                        kk = toks.index('props')
                        stub.props = [p for t in toks[kk + 1:] for p in t.split(',') if p]
                    out.append(('extract', stub))
                elif d == 'extract':
                    k = toks.index('::')
                    file = toks[1]
                    rest = toks[k + 1:]
                    alias = None
                    props = None
                    if 'props' in rest:
                        kk = rest.index('props')
                        props = [p for t in rest[kk + 1:] for p in t.split(',') if p]
                        rest = rest[:kk]
                    if 'as' in rest:
                        kk = rest.index('as')
                        alias = rest[kk + 1]
                        rest = rest[:kk]
                    ipath = ' '.join(rest)
                    cur = Extract(file, ipath, alias, props, i + 1)
                    curdir = None
                else:
                    raise WeaveError('%s:%d: unknown directive %s' % (path, i + 1, d))
            else:
                if d == 'end':
                    out.append(('extract', cur))
                    cur = None
                    curdir = None
                else:
                    curdir = (d, toks[1:], [], i + 1, body)
                    cur.directives.append(curdir)
        else:
            if cur is not None:
                if curdir is None:
                    if st:
                        raise WeaveError('%s:%d: text inside extract block before any directive' % (path, i + 1))
                else:
                    curdir[2].append(ln)
            else:
                out.append(('text', ln, i + 1))
        i += 1
    if cur is not None:
        raise WeaveError('%s: unterminated extract block (line %d)' % (path, cur.tline))
    return unit, out


def filter_spec(d, labels):
    """keep only the labelled clauses of a spec payload (plus all requires): used by `use-contract ... only a,b`"""
    name, args, payload, tline, raw = d
    text, spans, clauses = parse_clauses(payload, 'x', [])
    keep = {}
    for (a, b, cl) in spans:
        cid = cl.id.split('#', 1)[1]
        if cl.kind == 'requires' or cid in labels:
            keep.setdefault(cl.kind, []).append((cid, text[a:b]))
    found = {cid for v in keep.values() for cid, _ in v}
    for l in labels:
        if l not in found:
            raise WeaveError('use-contract: clause %s not found' % l)
    out = []
    for kw in ('requires', 'ensures'):
        if kw in keep:
            out.append(kw)
            for cid, t in keep[kw]:
                out.append('// [%s]' % cid)
                out.append(t + ',')
    return (name, args, out, tline, raw)


def default_alias(ipath):
    parts = [_norm(p) for p in ipath.split('/')]
    owner = None
    for p in parts[:-1]:
        if p.startswith('impl'):
            owner = re.sub(r'^impl(<[^>]*>)?\s*', '', p).split(' for ')[-1].strip()
    leaf = parts[-1].split(' ', 1)[-1] if not parts[-1].startswith('impl') else parts[-1]
    return ('%s::%s' % (owner, leaf)) if owner else leaf


def nth_occurrence(hay, needle, n, what):
    pos = -1
    start = 0
    for _ in range(n):
        pos = hay.find(needle, start)
        if pos < 0:
            raise WeaveError('lost anchor: %s (occurrence %d of %r)' % (what, n, needle))
        start = pos + 1
    return pos


def parse_occ(args):
    """extract '#n' from args -> (n, remaining args)"""
    n = 1
    rest = []
    for a in args:
        mm = re.match(r'^#(\d+)$', a)
        if mm:
            n = int(mm.group(1))
        else:
            rest.append(a)
    return n, rest


CFG_DROP = re.compile(r'#\[cfg\(\s*(feature\s*=\s*"log"|test)\s*\)\]')


def drop_cfg(code):
    """E2: drop `#[cfg(feature = "log")]` / `#[cfg(test)]` attributes with the statement/item they guard."""
    dropped = 0
    while True:
        m = mask(code)
        mm = CFG_DROP.search(code)
        # ensure it's not inside a string/comment: the '#' must survive masking
        while mm and m[mm.start()] != '#':
            mm = CFG_DROP.search(code, mm.end())
        if not mm:
            break
        i = mm.end()
        n = len(code)
        # skip further attributes
        j = i
        while True:
            while j < n and m[j].isspace():
                j += 1
            if m.startswith('#[', j):
                j = match_close(m, j + 1) + 1
            else:
                break
        # statement end: ';' at depth 0, or a block at depth 0 ending the statement
        k = j
        while k < n:
            c = m[k]
            if c in '([':
                k = match_close(m, k) + 1
                continue
            if c == '{':
                k = match_close(m, k) + 1
                # block-like statement ends here unless followed by else / ; / .
                t = k
                while t < n and m[t].isspace():
                    t += 1
                if m.startswith('else', t):
                    k = t + 4
                    continue
                if t < n and m[t] == ';':
                    k = t + 1
                break
            if c == ';' or c == ',':
                k += 1
                break
            if c in ')]}':
                break
            k += 1
        # remove from start of attr (and its leading whitespace on the line) to k
        a = mm.start()
        while a > 0 and code[a - 1] in ' \t':
            a -= 1
        code = code[:a] + code[k:]
        dropped += 1
    return code, dropped


TOKEN = re.compile(r"[A-Za-z_][A-Za-z0-9_]*|\d+|\S")


def _block_stmt_spans(m, ob):
    """(start, end) of the statements directly inside the block opened at m[ob] == '{' (end exclusive; trailing expression too)"""
    cb = match_close(m, ob)
    spans = []
    k = ob + 1
    n = cb
    while k < n:
        while k < n and m[k].isspace():
            k += 1
        if k >= n:
            break
        st = k
        blocklike = re.match(r'(if|match|for|while|loop|unsafe)\b', m[k:k + 7]) is not None
        while k < n:
            c = m[k]
            if c in '([':
                k = match_close(m, k) + 1
                continue
            if c == '{':
                k = match_close(m, k) + 1
                if blocklike:
                    t = k
                    while t < n and m[t].isspace():
                        t += 1
                    if m.startswith('else', t) and not (m[t + 4].isalnum() or m[t + 4] == '_'):
                        k = t + 4
                        continue
                    if t < n and m[t] == ';':
                        k = t + 1
                    elif t < n and m[t] in '.?':
                        blocklike = False      # `match x {..}.foo()` / `if .. {..}?`: an expression statement after all
                        continue
                    break
                continue
            if c == ';':
                k += 1
                break
            k += 1
        spans.append((st, k))
    return spans


def _if_branches(m, a, b):
    """blocks (open, close) of the if / else-if / else chain that is the statement m[a:b]; second value: True when it is a plain
    `if {..}` or `if {..} else {..}` (no else-if)"""
    branches = []
    k = a
    plain = True
    while True:
        while k < b and m[k] != '{':
            if m[k] in '([':
                k = match_close(m, k) + 1
                continue
            k += 1
        if k >= b:
            break
        bo_ = k
        bc_ = match_close(m, bo_)
        branches.append((bo_, bc_))
        t = bc_ + 1
        while t < b and m[t].isspace():
            t += 1
        if m.startswith('else', t):
            k = t + 4
            t2 = k
            while t2 < b and m[t2].isspace():
                t2 += 1
            if m.startswith('if', t2):
                plain = False
            continue
        break
    return branches, plain and len(branches) <= 2


def _rewrite_in_tail_block(m, code, ob):
    """one E30 rewrite in the block opened at `ob`, which is in tail position of a for-loop body (nothing of the body runs after
    it); returns the new code or None"""
    cb = match_close(m, ob)
    stmts = _block_stmt_spans(m, ob)
    for (a, b) in stmts:
        if not re.match(r'if\b', m[a:a + 3]):
            continue
        branches, plain = _if_branches(m, a, b)
        if not branches or not plain:
            continue
        for bi, (bo_, bc_) in enumerate(branches):
            inner = _block_stmt_spans(m, bo_)
            if not inner:
                continue
            la, lb = inner[-1]
            if re.match(r'continue\s*;?\s*$', m[la:lb]) is None:
                continue
            rest = code[b:cb]
            if len(branches) == 1:
                new_if = code[a:la] + code[lb:bc_] + '} else {' + rest + '}\n'
            elif bi == 0:
                new_if = code[a:la] + code[lb:branches[1][1]] + rest + '}\n'
            else:
                new_if = code[a:branches[0][1]] + rest + code[branches[0][1]:la] + code[lb:bc_ + 1] + '\n'
            return code[:a] + new_if + code[cb:]
    # no guard at this level: the branches of a LAST if-statement are in tail position too
    if stmts:
        a, b = stmts[-1]
        if re.match(r'if\b', m[a:a + 3]):
            branches, _plain = _if_branches(m, a, b)
            for (bo_, bc_) in branches:
                r = _rewrite_in_tail_block(m, code, bo_)
                if r is not None:
                    return r
    return None


def rewrite_guard_continues(code):
    """E30: in a `for` loop, a guard `if c { A; continue; } R` - the `continue` ends an if / else branch that is a statement of the
    loop body, or of a block in tail position of the loop body - becomes `if c { A } else { R }`.  Verus rejects `continue` in
    `for` loops; skipping the rest of the body and putting the rest of the body in the other branch are the same thing.
    Returns (code, number of rewrites); a `continue` anywhere else (inside a nested loop's own body it belongs to that loop; in a
    match arm; under an else-if chain) is left alone - the front end then refuses the function (exit 2)."""
    count = 0
    for _round in range(60):
        m = mask(code)
        new = None
        for fm in re.finditer(r'\bfor\b', m):
            k = fm.end()
            n = len(m)
            ob = -1
            while k < n:
                c = m[k]
                if c in '([':
                    k = match_close(m, k) + 1
                    continue
                if c == '{':
                    ob = k
                    break
                if c == ';':
                    break
                k += 1
            if ob < 0:
                continue
            new = _rewrite_in_tail_block(m, code, ob)
            if new is not None:
                break
        if new is None:
            break
        code = new
        count += 1
    return code, count


def tokens_of(code):
    m = mask(code)
    # keep string literal contents out (masked), comments out
    return TOKEN.findall(m)


def is_subsequence(cur, ref):
    it = iter(ref)
    return all(any(t == r for r in it) for t in cur)


PINNED = None


def pinned_tokens():
    global PINNED
    if PINNED is None:
        import json
        p = os.path.join(os.path.dirname(os.path.dirname(os.path.abspath(__file__))), 'contracts', 'pinned_tokens.json')
        try:
            PINNED = json.load(open(p))
        except Exception:
            PINNED = {}
    return PINNED


PINNED_LOOPS = None


_PINNED_SQL = None
def pinned_sql():
    global _PINNED_SQL
    if _PINNED_SQL is None:
        p = os.path.join(os.path.dirname(os.path.dirname(os.path.abspath(__file__))), 'contracts', 'pinned_sql.json')
        try:
            _PINNED_SQL = json.load(open(p))
        except Exception:
            _PINNED_SQL = {}
    return _PINNED_SQL


_PINNED_CUTS = None
def pinned_cuts():
    global _PINNED_CUTS
    if _PINNED_CUTS is None:
        p = os.path.join(os.path.dirname(os.path.dirname(os.path.abspath(__file__))), 'contracts', 'pinned_cuts.json')
        try:
            _PINNED_CUTS = json.load(open(p))
        except Exception:
            _PINNED_CUTS = {}
    return _PINNED_CUTS


def pinned_loops():
    global PINNED_LOOPS
    if PINNED_LOOPS is None:
        import json
        p = os.path.join(os.path.dirname(os.path.dirname(os.path.abspath(__file__))), 'contracts', 'pinned_loops.json')
        try:
            PINNED_LOOPS = json.load(open(p))
        except Exception:
            PINNED_LOOPS = {}
    return PINNED_LOOPS


def is_pure_hint(payload):
    """an inserted block that only helps the solver: `proof { lemma..(..); }` / `broadcast use ..;` lines without assertion,
    label, ghost variable or assume"""
    txt = '\n'.join(payload or [])
    if re.search(r'//\s*\[', txt) or re.search(r'\b(assert|assume|let\s+ghost|ghost|admit)\b', txt) or '@=' in txt or ' = ' in txt:
        return False
    return bool(txt.strip())


class Edit:
    def __init__(self, start, end, text, tag):
        self.start = start
        self.end = end
        self.text = text
        self.tag = tag  # ('clauses', spans) | None


class UnitBuild:
    def __init__(self, name, props):
        self.name = name
        self.props = props
        self.lines = []  # generated lines
        self.origin = []  # per generated line: dict
        self.clauses = []  # Clause
        self.extracts = []  # dict per extracted item
        self.transformations = []
        self.prelude_obligations = []  # dicts: id, props, text, gen_line

    def emit(self, text, origin):
        for ln in text.split('\n'):
            self.lines.append(ln)
            self.origin.append(origin)


def build_unit(template_path, repo_root, canary=None):
    unit, nodes = parse_template(template_path)
    ub = UnitBuild(unit['name'], unit['props'])
    ub.canary = canary
    files = {}
    for node in nodes:
        if node[0] == 'text':
            ub.emit(node[1], {'k': 'prelude', 'tline': node[2]})
        elif node[0] == 'obligation':
            _, oid, props, text, tline = node
            ub.prelude_obligations.append({'id': '%s/%s' % (ub.name, oid), 'props': props or ub.props, 'text': text,
                                           'gen_line': len(ub.lines) + 1})
            ub.emit('// obligation %s: %s' % (oid, text), {'k': 'prelude', 'tline': tline})
        else:
            ex = node[1]
            fpath = os.path.join(repo_root, ex.file)
            if fpath not in files:
                if not os.path.exists(fpath):
                    raise WeaveError('missing source file %s' % ex.file)
                try:
                    files[fpath] = RustFile(fpath, open(fpath).read())
                except ScanError as e:
                    raise WeaveError('cannot scan %s: %s' % (ex.file, e))
            n_lines, n_clauses, n_extracts = len(ub.lines), len(ub.clauses), len(ub.extracts)
            try:
                weave_extract(ub, ex, files[fpath], repo_root)
            except WeaveError as e:
                # a LIFTED block (E9/E14: nothing else in the unit calls it) whose anchors are lost on restructured code is left out of
                # the unit instead of stopping it: the other functions of the unit are still decided (a failure among them is a
                # VIOLATION); with no failure the unit is undecided, since this block could not be checked
                lifted_block = any(d[0] in ('lift', 'lift-loop', 'lift-range') for d in ex.directives)
                if not (lifted_block and str(e).startswith('lost anchor')):
                    raise
                del ub.lines[n_lines:]
                del ub.origin[n_lines:]
                del ub.clauses[n_clauses:]
                del ub.extracts[n_extracts:]
                if not hasattr(ub, 'left_out'):
                    ub.left_out = []
                ub.left_out.append({'alias': ex.alias or ex.path, 'reason': str(e)})
                ub.emit('// LEFT OUT: %s (%s)' % (ex.alias or ex.path, e), {'k': 'prelude', 'tline': ex.tline})
    return ub


def weave_extract(ub, ex, rf, repo_root):
    try:
        chain = rf.find(ex.path)
    except (KeyError, ScanError) as e:
        raise WeaveError('lost anchor: %s' % e)
    item = chain[-1]
    src = rf.text[item.start:item.end]
    props = ex.props or ub.props
    leaf = item.name if item.kind != 'impl' else item.name
    owner_type = None
    for c in chain[:-1]:
        if c.kind == 'impl':
            owner_type = re.sub(r'^impl(<[^>]*>)?\s*', '', c.name)
            owner_type = owner_type.split(' for ')[-1].strip()
    alias = ex.alias or (('%s::%s' % (owner_type, leaf)) if owner_type else leaf)
    owner = '%s/%s' % (ub.name, alias)
    rec = {
        'alias': alias, 'owner': owner, 'file': ex.file, 'path': ex.path, 'kind': item.kind,
        'src_line_start': rf.line_of(item.start), 'src_line_end': rf.line_of(item.end - 1),
        'byte_range': [item.start, item.end], 'sha256': hashlib.sha256(src.encode()).hexdigest(),
        'props': props, 'transformations': [], 'clauses': [],
    }
    code = src
    # E2
    code, nd = drop_cfg(code)
    if nd:
        rec['transformations'].append({'rule': 'E2', 'what': 'dropped %d cfg(feature="log"|test) guarded statement(s)' % nd})
    # E1 for struct/enum bodies: drop field attributes (#[serde(..)] etc.)
    if item.kind in ('struct', 'enum'):
        code2 = strip_inner_attrs(code)
        if code2 != code:
            rec['transformations'].append({'rule': 'E1', 'what': 'dropped field/variant attributes'})
            code = code2
    if item.attrs_start != item.start:
        at = _norm(re.sub(r'///[^\n]*', '', rf.text[item.attrs_start:item.start]))
        if at:
            rec['transformations'].append({'rule': 'E1', 'what': 'dropped attributes: ' + at[:160]})
    # E10
    if item.kind == 'const':
        c2 = re.sub(r':\s*&\s*str\b', ": &'static str", code, count=1)
        if c2 != code:
            rec['transformations'].append({'rule': 'E10', 'what': "&str -> &'static str"})
            code = c2

    # E30: guard `continue`s of for loops that are verified in place (not lifted by E14)
    if item.kind == 'fn' and not any(d[0] == 'lift-loop' for d in ex.directives) and re.search(r'\bcontinue\b', mask(code)):
        code, nc = rewrite_guard_continues(code)
        if nc:
            rec['transformations'].append({'rule': 'E30', 'what': '%d guard `continue` of a for loop rewritten as `if .. {..} else {<rest of the loop body>}`' % nc})

    stub_of = getattr(ex, 'stub_of', None)
    rec['stub_of'] = stub_of
    if stub_of:
        if item.kind != 'fn':
            raise WeaveError('use-contract on a non-function %s' % alias)
        mm0 = mask(code)
        bo = find_fn_body(mm0)
        code = code[:bo] + '{ unimplemented!() }'
        rec['transformations'].append({'rule': 'CONTRACT', 'what': 'body not verified here: seen only through the contract proved in unit %s' % stub_of})
    lifted = None
    for d in ex.directives:
        if d[0] in ('lift', 'lift-loop', 'lift-range'):
            lifted = d
    if lifted is not None:
        code = do_lift(code, lifted, rec)

    m = mask(code)
    edits = []
    attrs = []
    result_name = None
    spec_payload = None
    sync = False
    rename = None
    body_open = None
    if item.kind == 'fn' or lifted is not None:
        body_open = find_fn_body(m)
    pin_key = '%s::%s' % (ex.file, ex.path)
    rec['tokens'] = tokens_of(src)
    # the SQL text inside an extracted function is ASSUMED (string contents are masked out of the verified text): it is pinned, and a
    # function whose SQL no longer has the pinned text leaves its unit undecided when nothing else fails (never an alarm, never trusted)
    sql = [' '.join(x.split()) for x in re.findall(r'"((?:[^"\\\\]|\\\\.)*)"', src, re.S) if re.search(r'\b(SELECT|INSERT|UPDATE|DELETE|CREATE|WHERE)\b', x)]
    rec['sql_hash'] = hashlib.sha256('\x00'.join(sql).encode()).hexdigest() if sql else None
    psql = pinned_sql().get('%s::%s' % (pin_key, alias))
    if psql is not None and rec['sql_hash'] != psql:
        if not hasattr(ub, 'left_out'):
            ub.left_out = []
        ub.left_out.append({'alias': alias, 'reason': 'the SQL text in this function (assumed, pinned) has changed'})
    pinned = pinned_tokens().get(pin_key)
    deletion_only = pinned is not None and rec['tokens'] != pinned and is_subsequence(rec['tokens'], pinned)
    rec['lost_anchors'] = []
    directives = list(ex.directives)
    di = 0
    while di < len(directives):
      d = directives[di]
      di += 1
      try:
        name, args, payload, tline, raw = d
        if name in ('lift', 'lift-loop', 'lift-range'):
            continue
        if name == 'result':
            result_name = args[0]
        elif name == 'sync':
            sync = True
        elif name == 'attr':
            attrs.append(raw[len('attr'):].strip())
        elif name == 'rename':
            rename = args[0]
        elif name == 'spec':
            spec_payload = payload
        elif name == 'loop':
            n, rest = parse_occ(args)
            anchor = rest[0]
            itname = None
            if 'iter' in rest:
                itname = rest[rest.index('iter') + 1]
            lkey = '%s#%d' % (anchor, n)
            lpos = [mm_.start() for mm_ in re.finditer(r'\b(?:for|while|loop)\b', m)]
            rec.setdefault('loops', {'count': len(lpos), 'ord': {}})
            try:
                pos = nth_occurrence(m, anchor, n, '%s loop header' % alias)
                if pos in lpos:
                    rec['loops']['ord'][lkey] = lpos.index(pos)
            except WeaveError:
                # the header text changed: if the function still has the same number of loops, the directive goes to the loop at the
                # same ordinal position (an edited header keeps its invariants: they hold or they fail, which is a decision)
                pl = pinned_loops().get('%s::%s' % (pin_key, alias))
                if pl and pl.get('count') == len(lpos) and lkey in pl.get('ord', {}):
                    pos = lpos[pl['ord'][lkey]]
                    rec['transformations'].append({'rule': 'E5', 'what': 'loop header %r not found: invariants attached to the loop at the same ordinal position (%d of %d)' % (anchor, pl['ord'][lkey] + 1, len(lpos))})
                else:
                    raise
            # find body '{' at depth 0
            k = pos
            while k < len(m):
                if m[k] in '([':
                    k = match_close(m, k) + 1
                    continue
                if m[k] == '{':
                    break
                k += 1
            else:
                raise WeaveError('lost anchor: loop body of %r in %s' % (anchor, alias))
            lid = 'L%d.' % (1 + sum(1 for r in rec['clauses'] if False))
            loop_no = len([t for t in rec['transformations'] if t['rule'] == 'E5']) + 1
            text, spans, clauses = parse_clauses(payload, owner, props, prefix='loop%d.' % loop_no)
            edits.append(Edit(k, k, '\n' + text + '\n', ('clauses', spans)))
            ub.clauses.extend(clauses)
            rec['clauses'].extend(c.id for c in clauses)
            if itname:
                mm = re.compile(r'\bin\s+').search(m, pos)
                if not mm or mm.start() > k:
                    raise WeaveError('lost anchor: `in` of for loop %r in %s' % (anchor, alias))
                edits.append(Edit(mm.end(), mm.end(), itname + ': ', None))
            rec['transformations'].append({'rule': 'E5', 'what': 'loop %r: %d invariant/decreases clause(s)%s' % (
                anchor, len(clauses), (', ghost iterator name ' + itname) if itname else '')})
        elif name == 'closure':
            n, rest = parse_occ(args)
            anchor = rest[0]
            newp = anchor
            ret = 'bool'
            if 'as' in rest:
                newp = rest[rest.index('as') + 1]
            if 'ret' in rest:
                ret = ' '.join(rest[rest.index('ret') + 1:])
            pos = nth_occurrence(m, anchor, n, '%s closure' % alias)
            b = pos + len(anchor)
            while m[b].isspace():
                b += 1
            if m[b] == '{':
                e = match_close(m, b) + 1
                body = code[b + 1:e - 1].strip()
            else:
                e = b
                while e < len(m):
                    if m[e] in '([{':
                        e = match_close(m, e) + 1
                        continue
                    if m[e] in ',);]}':
                        break
                    e += 1
                body = code[b:e].strip()
            # rewrite rules of the same function apply inside the closure body too (the closure edit replaces the whole closure text)
            for d2 in directives:
                if d2[0] == 'rewrite' and '=>' in d2[1]:
                    k2 = d2[1].index('=>')
                    try:
                        body = re.sub(d2[1][1], d2[1][k2 + 1] if k2 + 1 < len(d2[1]) else '', body)
                    except re.error:
                        pass
            if payload and ''.join(payload).strip():
                ens = '\n'.join(payload)
                new = '%s -> (b: %s) %s { %s }' % (newp, ret, ens.strip(), body)
            else:
                new = '%s -> (b: %s) ensures b == (%s) { %s }' % (newp, ret, body, body)
            edits.append(Edit(pos, e, new, None))
            rec['transformations'].append({'rule': 'E6', 'what': 'closure %s -> %s with ensures = its own body' % (anchor, newp)})
        elif name in ('insert', 'insert-each'):
            n, rest = parse_occ(args)
            mode = rest[0]
            positions = []
            if mode == 'body-start':
                positions = [body_open + 1]
            elif mode == 'body-end':
                positions = [match_close(m, body_open)]
            else:
                anchor = rest[1]
                hay = m if not ('"' in anchor) else code
                occs = []
                if name == 'insert-each':
                    st = 0
                    while True:
                        p0 = hay.find(anchor, st)
                        if p0 < 0:
                            break
                        # skip matches inside comments
                        if m[p0] == code[p0] or code[p0].isspace():
                            if not (anchor.isidentifier() and ((p0 > 0 and (hay[p0 - 1].isalnum() or hay[p0 - 1] == '_')) or (p0 + len(anchor) < len(hay) and (hay[p0 + len(anchor)].isalnum() or hay[p0 + len(anchor)] == '_')))):
                                occs.append(p0)
                        st = p0 + 1
                    if not occs and 'optional' not in rest:
                        raise WeaveError('lost anchor: %s insert-each anchor %r' % (alias, anchor))
                else:
                    occs = [nth_occurrence(hay, anchor, n, '%s insert anchor' % alias)]
                if 'unless' in rest:
                    ex_txt = rest[rest.index('unless') + 1]
                    keep = []
                    for p in occs:
                        a0 = stmt_start(m, p, alias, anchor)
                        b0 = (p + len(anchor)) if anchor.endswith(';') else stmt_end(m, p + len(anchor), alias, anchor)
                        if ex_txt not in code[a0:b0]:
                            keep.append(p)
                    occs = keep
                if 'when-try' in rest:
                    # only statements that can exit through a `?` applied at the statement's own level
                    keep = []
                    for p in occs:
                        a0 = stmt_start(m, p, alias, anchor)
                        b0 = (p + len(anchor)) if anchor.endswith(';') else stmt_end(m, p + len(anchor), alias, anchor)
                        depth = 0
                        has = False
                        for ch in m[a0:b0]:
                            if ch == '{':
                                depth += 1
                            elif ch == '}':
                                depth -= 1
                            elif ch == '?' and depth == 0:
                                has = True
                        if has:
                            keep.append(p)
                    occs = keep
                for p in occs:
                    if mode == 'before-text':
                        positions.append(p)
                    elif mode == 'after-text':
                        positions.append(p + len(anchor))
                    elif mode == 'after-stmt':
                        positions.append(stmt_end(m, p + len(anchor) - 1 if anchor.endswith(';') else p + len(anchor), alias, anchor))
                    elif mode == 'before-stmt':
                        positions.append(stmt_start(m, p, alias, anchor))
                    else:
                        raise WeaveError('unknown insert mode %s' % mode)
            text = '\n'.join(payload)
            blockno = len([t for t in rec['transformations'] if t['rule'] == 'E7']) + 1
            for k, pos in enumerate(positions):
                spans, clauses = ghost_asserts(text, owner, props, blockno)
                if len(positions) > 1:
                    for c in clauses:
                        c.id = '%s@%d' % (c.id, k + 1)
                ub.clauses.extend(clauses)
                rec['clauses'].extend(c.id for c in clauses)
                edits.append(Edit(pos, pos, '\n' + text + '\n', ('clauses', [(a + 0, b + 0, c) for a, b, c in spans])))
            rec['transformations'].append({'rule': 'E7', 'what': 'ghost code %s %r (%d site(s))' % (mode, rest[1] if len(rest) > 1 else '', len(positions))})
        elif name == 'cut':
            # E8: one loop statement replaced by a call to a prelude stub with an assumed contract
            n, rest = parse_occ(args)
            anchor = rest[0]
            k = rest.index('=>')
            rep = rest[k + 1]
            pos = nth_occurrence(m, anchor, n, '%s cut anchor' % alias)
            kk = pos
            while kk < len(m):
                if m[kk] in '([':
                    kk = match_close(m, kk) + 1
                    continue
                if m[kk] == '{':
                    break
                kk += 1
            else:
                raise WeaveError('lost anchor: cut loop body %r in %s' % (anchor, alias))
            e = match_close(m, kk) + 1
            # the assumed contract of a cut describes the loop AS IT WAS when the contract was written: its text (comments and blanks
            # apart) is pinned, and a loop that no longer has that text is not covered by the assumption - the unit is then undecided
            # (exit 2), never silently trusted
            cut_text = ' '.join(re.sub(r'//[^\n]*', '', code[pos:e]).split())
            cut_key = '%s::%s::%s#%d' % (pin_key, alias, anchor, n)
            pc = pinned_cuts().get(cut_key)
            # (`body-verified`: the loop body is under contract as a lifted function, rule E14; a change in it is decided there)
            if 'body-verified' not in rest and pc is not None and pc != hashlib.sha256(cut_text.encode()).hexdigest():
                raise WeaveError('changed cut: the loop %r of %s replaced by an assumed contract no longer has the text the assumption was written for' % (anchor, alias))
            rec.setdefault('cut_pins', {})[cut_key] = hashlib.sha256(cut_text.encode()).hexdigest()
            edits.append(Edit(pos, e, rep, None))
            rec['transformations'].append({'rule': 'E8', 'what': 'CUT: loop %r (%d source lines) replaced by `%s` (assumed contract; text pinned)' % (
                anchor, code.count('\n', pos, e) + 1, rep)})
            rec.setdefault('cuts', []).append({'loop': anchor, 'replacement': rep, 'lines': code.count('\n', pos, e) + 1})
        elif name == 'shell':
            # E14 (shell form): the BODY of a loop whose body is verified separately as a lifted function (E14, same unit or another) is
            # replaced by a call to that function: the rest of the enclosing function - what surrounds the loop, what is done with what
            # the loop builds - is then verified against the lifted function's CONTRACT (modular: the call site sees the contract only)
            n, rest = parse_occ(args)
            anchor = rest[0]
            k = rest.index('=>')
            rep = rest[k + 1]
            pos = nth_occurrence(m, anchor, n, '%s shell loop header' % alias)
            kk = pos
            while kk < len(m):
                if m[kk] in '([':
                    kk = match_close(m, kk) + 1
                    continue
                if m[kk] == '{':
                    break
                kk += 1
            else:
                raise WeaveError('lost anchor: shell loop body %r in %s' % (anchor, alias))
            e = match_close(m, kk)
            edits.append(Edit(kk + 1, e, ' ' + rep + ' ', None))
            rec['transformations'].append({'rule': 'E14', 'what': 'SHELL: body of loop %r (%d source lines, verified as a lifted function) replaced by the call `%s`: the enclosing function is verified against that function\'s contract' % (
                anchor, code.count('\n', kk, e) + 1, rep)})
        elif name == 'rewrite':
            rule = args[0]
            k = args.index('=>')
            pat = args[1]
            rep = args[k + 1] if k + 1 < len(args) else ''
            expect = None
            anycount = False
            for a in args[k + 2:]:
                mm = re.match(r'^x(\d+)$', a)
                if mm:
                    expect = int(mm.group(1))
                if a == 'x*':
                    anycount = True
            cnt = 0
            for mm in re.finditer(pat, code):
                if m[mm.start()] != code[mm.start()] and not code[mm.start()].isspace():
                    continue  # inside comment/string
                edits.append(Edit(mm.start(), mm.end(), mm.expand(rep), None))
                cnt += 1
            if expect is not None and cnt != expect:
                raise WeaveError('lost anchor: rewrite %s /%s/ in %s matched %d time(s), expected %d' % (rule, pat, alias, cnt, expect))
            if cnt == 0 and expect is None and not anycount:
                raise WeaveError('lost anchor: rewrite %s /%s/ in %s matched nothing' % (rule, pat, alias))
            rec['transformations'].append({'rule': rule, 'what': 'rewrite /%s/ => %r (%d occurrence(s))' % (pat, rep, cnt)})
        else:
            raise WeaveError('unknown sub-directive %s (template line %d)' % (name, tline))
      except WeaveError as e:
        # DESIGN section 8: an anchor lost because code was only DELETED (current token sequence is a subsequence of the
        # pinned one) does not stop the check: the annotation is dropped and verification is attempted with the rest
        if deletion_only and str(e).startswith('lost anchor') and d[0] in ('insert', 'insert-each', 'loop', 'closure', 'cut', 'rewrite', 'shell'):
            rec['lost_anchors'].append('%s: %s' % (d[0], e))
            continue
        # a lost anchor of a pure PROOF HINT (a closure conversion, or an inserted block that carries no labelled obligation and
        # no ghost bookkeeping: lemma calls / broadcast use only) on a function that was restructured: the hint is dropped and
        # the function is marked degraded. If Verus still discharges every obligation of the function the edit is decided
        # (harmless); a failure inside a degraded function is UNDECIDED (exit 2), never a VIOLATION: without the hints a
        # failed proof says nothing.
        if str(e).startswith('lost anchor') and (d[0] == 'closure' or (d[0] == 'insert' and is_pure_hint(d[2]))):
            rec.setdefault('degraded', []).append('%s: %s' % (d[0], e))
            continue
        raise

    # header edits (fn only)
    if body_open is not None:
        hdr_m = m[:body_open]
        if sync:
            mm = re.search(r'\basync\s+', hdr_m)
            if not mm:
                raise WeaveError('E11: %s is not async' % alias)
            body_m = m[body_open:]
            if re.search(r'\.\s*await\b', body_m):
                raise WeaveError('E11: %s contains .await' % alias)
            edits.append(Edit(mm.start(), mm.end(), '', None))
            rec['transformations'].append({'rule': 'E11', 'what': 'await-free async fn extracted as sync'})
        if result_name:
            arrow = find_arrow(hdr_m)
            if arrow is None:
                raise WeaveError('E4: %s has no return type to name' % alias)
            a, b = arrow
            ty = code[a:b].strip()
            edits.append(Edit(a, b, ' (%s: %s) ' % (result_name, ty), None))
            rec['transformations'].append({'rule': 'E4', 'what': 'result named %s' % result_name})
        if getattr(ub, 'canary', None) == alias:
            spec_payload = add_canary(spec_payload)
        if spec_payload is not None:
            text, spans, clauses = parse_clauses(spec_payload, owner, props)
            for c in clauses:
                c.assumed = bool(stub_of)
            ub.clauses.extend(clauses)
            rec['clauses'].extend(c.id for c in clauses)
            edits.append(Edit(body_open, body_open, '\n' + text + '\n', ('clauses', spans)))
    if rename:
        mm = re.search(r'\b' + re.escape(item.name) + r'\b', m)
        edits.append(Edit(mm.start(), mm.end(), rename, None))
        rec['transformations'].append({'rule': 'E3', 'what': 'emitted under the name %s' % rename})

    # apply edits, tracking generated lines for clause spans
    # edits that fall inside a region replaced as a whole (a cut) are dropped with it
    spans_big = [(e.start, e.end) for e in edits if e.end - e.start > 0]
    kept = []
    for e in edits:
        inside = any((a <= e.start and e.end <= b) and (a, b) != (e.start, e.end)
                     and not (e.start == e.end and (e.start == a or e.end == b)) for a, b in spans_big)
        if not inside:
            kept.append(e)
    edits = kept
    edits.sort(key=lambda e: (e.start, e.end))
    for a, b in zip(edits, edits[1:]):
        if b.start < a.end:
            raise WeaveError('overlapping edits in %s at %d' % (alias, b.start))
    # wrapper
    pre = ''
    post = ''
    for c in chain[:-1]:
        if c.kind == 'impl':
            pre += c.name + ' {\n'
            post = '}\n' + post
    if stub_of:
        pre += '#[verifier::external_body]\n'
    for a in attrs:
        pre += a + '\n'
    ub.emit('// ---- extracted: %s :: %s  (lines %d-%d, sha256 %s)' % (
        ex.file, ex.path, rec['src_line_start'], rec['src_line_end'], rec['sha256'][:16]), {'k': 'marker'})
    rec['gen_line_start'] = len(ub.lines) + 1
    if pre:
        ub.emit(pre.rstrip('\n'), {'k': 'wrap', 'owner': owner})
    # build output text piecewise to map lines
    pos = 0
    cur_line_text = ''
    out_chunks = []  # (text, kind, payload)

    def src_line(off):
        return rec['src_line_start'] + src_offset_line(off)

    # Note: after E2 dropping, source line numbers are approximate (we map via code offsets in dropped text).
    def src_offset_line(off):
        return code.count('\n', 0, off)

    gen = ''
    marks = []  # (gen_offset_start, gen_offset_end, clause)
    srcmap = []  # (gen_offset, code_offset) pairs at chunk starts
    for e in edits:
        srcmap.append((len(gen), pos, 'code'))
        gen += code[pos:e.start]
        if e.tag and e.tag[0] == 'clauses':
            base = len(gen) + 1  # the '\n' prefix
            for (a, b, cl) in e.tag[1]:
                marks.append((base + a, base + b, cl))
        srcmap.append((len(gen), e.start, 'woven'))
        gen += e.text
        pos = e.end
    srcmap.append((len(gen), pos, 'code'))
    gen += code[pos:]
    # line origins
    first_gen_line = len(ub.lines) + 1
    gen_lines = gen.split('\n')
    # compute for each generated line the code offset (approximately) -> source line
    offs = 0
    si = 0
    for gl in gen_lines:
        while si + 1 < len(srcmap) and srcmap[si + 1][0] <= offs:
            si += 1
        g0, c0, kind = srcmap[si]
        if kind == 'code':
            coff = c0 + (offs - g0)
            sl = rec['src_line_start'] + code.count('\n', 0, coff)
            ub.lines.append(gl)
            ub.origin.append({'k': 'code', 'owner': owner, 'file': ex.file, 'src_line': sl})
        else:
            ub.lines.append(gl)
            ub.origin.append({'k': 'woven', 'owner': owner, 'file': ex.file})
        offs += len(gl) + 1
    for (a, b, cl) in marks:
        la = first_gen_line + gen.count('\n', 0, a)
        lb = first_gen_line + gen.count('\n', 0, max(a, b - 1))
        cl.gen_lines = (la, lb)
    if post:
        ub.emit(post.rstrip('\n'), {'k': 'wrap', 'owner': owner})
    rec['gen_line_end'] = len(ub.lines)
    ub.transformations.extend({'item': alias, **t} for t in rec['transformations'])
    ub.extracts.append(rec)


def add_canary(payload):
    """vacuity canary: an extra postcondition `false` that must be reported as failing"""
    text = '\n'.join(payload or [])
    m = mask(text)
    secs = [(mm.start(1), mm.group(1)) for mm in re.finditer(r'(?m)^[ \t]*(' + '|'.join(SECTION_KW) + r')\b', m)]
    can = '// [canary] vacuity canary\n false,'
    if not secs or all(k != 'ensures' for _, k in secs):
        # no ensures section: add one before a trailing decreases, else at the end
        dec = [p for p, k in secs if k == 'decreases']
        if dec:
            return (text[:dec[0]] + ' ensures\n' + can + '\n' + text[dec[0]:]).split('\n')
        return (text.rstrip().rstrip(',') + (',' if m.strip() else '') + '\n ensures\n' + can).split('\n')
    # ensures exists: append to the end of the ensures section
    idx = max(i for i, (p, k) in enumerate(secs) if k == 'ensures')
    end = secs[idx + 1][0] if idx + 1 < len(secs) else len(text)
    # find line start of next section
    if idx + 1 < len(secs):
        end = text.rfind('\n', 0, end) + 1
    body = text[:end].rstrip()
    if not body.endswith(','):
        # trailing comment lines? ensure a comma after the last code char
        mb = mask(body).rstrip()
        cut = len(mb)
        body = body[:cut] + (',' if not mb.endswith(',') else '') + body[cut:]
    return (body + '\n' + can + '\n' + text[end:]).split('\n')


def strip_inner_attrs(code):
    m = mask(code)
    out = []
    i = 0
    n = len(code)
    while i < n:
        if m[i] == '#' and i + 1 < n and m[i + 1] == '[':
            j = match_close(m, i + 1) + 1
            # swallow trailing whitespace/newline
            while j < n and code[j] in ' \t':
                j += 1
            if j < n and code[j] == '\n':
                j += 1
                # and the indentation before the attr
                while out and out[-1] in ' \t':
                    out.pop()
            i = j
            continue
        out.append(code[i])
        i += 1
    s = ''.join(out)
    # drop doc comments
    s = re.sub(r'(?m)^[ \t]*///[^\n]*\n', '', s)
    return s


def find_fn_body(m):
    # first '{' at paren depth 0 after the parameter list
    k = 0
    n = len(m)
    while k < n:
        c = m[k]
        if c in '([':
            k = match_close(m, k) + 1
            continue
        if c == '{':
            return k
        k += 1
    raise WeaveError('function body not found')


def find_arrow(hdr_m):
    """returns (start,end) offsets of the return type text in header, or None"""
    k = 0
    n = len(hdr_m)
    # skip to end of param list: first '(' at depth0 after 'fn name<..>'
    p = hdr_m.find('(')
    if p < 0:
        return None
    e = match_close(hdr_m, p)
    mm = re.compile(r'\s*->').match(hdr_m, e + 1)
    if not mm:
        return None
    a = mm.end()
    w = re.compile(r'\bwhere\b').search(hdr_m, a)
    b = w.start() if w else n
    return (a, b)


def stmt_end(m, pos, alias, anchor):
    # block-like statement (if / if let / match / for / while / loop): ends at its closing brace (after else chains)
    try:
        st = stmt_start(m, pos - 1, alias, anchor)
        while st < len(m) and m[st].isspace():
            st += 1
        mm = re.match(r'(if|match|for|while|loop)\b', m[st:st + 6])
        is_let = re.match(r'let\b', m[st:st + 4])
    except WeaveError:
        mm = None
        st = pos
    if mm:
        k = st
        n = len(m)
        while k < n:
            c = m[k]
            if c in '([':
                k = match_close(m, k) + 1
                continue
            if c == '{':
                k = match_close(m, k) + 1
                t = k
                while t < n and m[t].isspace():
                    t += 1
                if m.startswith('else', t):
                    k = t + 4
                    continue
                return k
            k += 1
        raise WeaveError('lost anchor: block statement end after %r in %s' % (anchor, alias))
    k = pos
    n = len(m)
    while k < n:
        c = m[k]
        if c in '([{':
            k = match_close(m, k) + 1
            continue
        if c == ';':
            return k + 1
        if c in ')]}':
            # we started inside a bracket: continue outward
            k += 1
            continue
        k += 1
    raise WeaveError('lost anchor: statement end after %r in %s' % (anchor, alias))


def stmt_start(m, pos, alias, anchor):
    k = pos - 1
    depth = 0
    while k >= 0:
        c = m[k]
        if c in ')]}':
            if c == '}' and depth == 0:
                # end of a previous block statement?
                t = k + 1
                while t < pos and m[t].isspace():
                    t += 1
                if not (m.startswith('else', t) or m[t] in '.?'):
                    return k + 1
            depth += 1
        elif c in '([{':
            if depth == 0:
                if c == '{':
                    return k + 1
                # inside parens: keep going outward
                k -= 1
                continue
            depth -= 1
        elif c == ';' and depth == 0:
            return k + 1
        k -= 1
    raise WeaveError('lost anchor: statement start before %r in %s' % (anchor, alias))


def ghost_asserts(text, owner, props, blockno):
    """each `assert(` / `assert forall` in woven ghost code is an obligation"""
    m = mask(text)
    spans = []
    clauses = []
    k = 0
    for mm in re.finditer(r'\bassert\b', m):
        k += 1
        # label on the same or previous line
        ls = text.rfind('\n', 0, mm.start()) + 1
        le = text.find('\n', mm.start())
        if le < 0:
            le = len(text)
        line = text[ls:le]
        prev = text[text.rfind('\n', 0, max(0, ls - 1)) + 1:max(0, ls - 1)]
        lm = LABEL.match(prev) or None
        cid = 'g%d.assert%d' % (blockno, k)
        desc = ''
        p = props
        if lm:
            cid = lm.group(1)
            if lm.group(2):
                p = [x.strip() for x in lm.group(2).split(',') if x.strip()]
            desc = lm.group(3)
        cl = Clause('%s#%s' % (owner, cid), 'assert', _norm(line), desc, p)
        clauses.append(cl)
        if re.match(r'assert\s+forall\b', m[mm.start():]):
            # `assert forall|..| a implies b by {`: Verus reports the failure on the `implies` part, which may be on a later line
            kb = re.search(r'\bby\s*\{', m[mm.start():])
            if kb:
                le2 = text.find('\n', mm.start() + kb.start())
                le = le2 if le2 >= 0 else len(text)
        spans.append((mm.start(), le, cl))
    return spans, clauses


def do_lift(code, d, rec):
    """E9: body of the block opened right after the anchor becomes a function."""
    name, args, payload, tline, raw = d
    n, rest = parse_occ(args)
    anchor = rest[0]
    if ' :: ' in raw:
        sig = raw.split(' :: ', 1)[1].strip()
        sig = re.sub(r'\s+tail\s+"[^"]*"\s*$', '', sig)
    else:
        sig = raw[raw.index(' fn ') + 1:]
    m = mask(code)
    if name == 'lift-range':
        # E9 (range form): the statements from the one starting with <anchor> up to (not including) the first later statement
        # starting with <end anchor> become the body of a function
        if '..' not in rest:
            raise WeaveError('lift-range needs "<first statement>" .. "<statement after the last>"')
        end_anchor = rest[rest.index('..') + 1]
        if 'after' in rest:
            # range form `lift-range after "<statement>" .. "<end>"`: the range starts right AFTER the statement that begins with
            # <anchor> (a large stable statement), so that a change which deletes the first lifted statement - or all of them -
            # still yields a (shorter, possibly empty) lifted function whose contract is then decided
            anchor = rest[rest.index('after') + 1]
            p0 = nth_occurrence(m, anchor, n, 'lift-range statement before the range')
            if re.match(r'\s*(impl|struct|enum|fn)\b', anchor):
                # a local item (e.g. `impl Writeable for Serialized {..}` inside the function): it ends at its closing brace
                pos = match_close(m, m.index('{', p0)) + 1
            else:
                pos = stmt_end(m, p0 + len(anchor.rstrip().rstrip('{(')), 'lift-range', anchor)
            anchor = ''
        elif ' ' in anchor.strip() and anchor not in m:
            # an anchor that spans lines: its blank-separated parts may be separated by any white space in the source
            rx = r'\s*'.join(re.escape(p_) for p_ in anchor.split())
            if anchor[0].isalnum() or anchor[0] == '_':
                rx = r'(?<![A-Za-z0-9_])' + rx
            occ = [mm_ for mm_ in re.finditer(rx, m)]
            if len(occ) < n:
                raise WeaveError('lost anchor: lift-range first statement (occurrence %d of %r)' % (n, anchor))
            pos = occ[n - 1].start()
            anchor = m[pos:occ[n - 1].end()]
        else:
            pos = nth_occurrence(m, anchor, n, 'lift-range first statement')
        pos2 = m.find(end_anchor, pos + len(anchor))
        if pos2 < 0:
            raise WeaveError('lost anchor: lift-range end statement %r after %r' % (end_anchor, anchor))
        depth = 0
        for ch in m[pos:pos2]:
            if ch in '([{':
                depth += 1
            elif ch in ')]}':
                depth -= 1
                if depth < 0:
                    raise WeaveError('lost anchor: lift-range %r .. %r does not stay inside one block' % (anchor, end_anchor))
        if depth != 0:
            raise WeaveError('lost anchor: lift-range %r .. %r does not end at the nesting level it starts at' % (anchor, end_anchor))
        rec['transformations'].append({'rule': 'E9', 'what': 'statements from %r up to (not including) %r lifted to `%s`' % (anchor, end_anchor, sig)})
        if 'tail' in rest:
            tail = rest[rest.index('tail') + 1]
            rec['transformations'].append({'rule': 'E9', 'what': 'the lifted statements use `?` / `return Err`: `%s` appended as the value of the lifted function' % tail})
            return sig + ' {\n' + code[pos:pos2] + '\n' + tail + '\n}'
        return sig + ' {\n' + code[pos:pos2] + '\n}'
    if ' ' in anchor.strip() and anchor not in m:
        # an anchor that spans lines: its blank-separated parts may be separated by any white space in the source
        rx = r'\s*'.join(re.escape(p_) for p_ in anchor.split())
        occ = [mm_ for mm_ in re.finditer(rx, m)]
        if len(occ) < n:
            raise WeaveError('lost anchor: lift anchor (occurrence %d of %r)' % (n, anchor))
        pos = occ[n - 1].start()
        anchor = m[pos:occ[n - 1].end()]
    else:
        pos = nth_occurrence(m, anchor, n, 'lift anchor')
    b = m.find('{', pos + len(anchor) - 1) if not anchor.rstrip().endswith('{') else pos + len(anchor.rstrip()) - 1
    e = match_close(m, b)
    body = code[b:e + 1]
    head = m[pos + len(anchor):b].strip() if not anchor.rstrip().endswith('{') else ''
    if head and name == 'lift':
        # the arm is an expression with a block (`=> match res { .. }`, `=> if c { .. }`): the whole expression is lifted
        body = '{\n' + code[pos + len(anchor):b].strip() + ' ' + body + '\n}'
    if name == 'lift-loop':
        # E30 inside the lifted body: a guard `continue` of a NESTED `for` loop belongs to that loop and is rewritten to if / else there
        body, _n30 = rewrite_guard_continues(body)
        if _n30:
            rec['transformations'].append({'rule': 'E30', 'what': '%d guard `continue` of nested for-loops rewritten to if / else' % _n30})
        bm = mask(body)
        if re.search(r'\b(for|while|loop)\b', bm[1:]) and re.search(r'\bcontinue\b', bm):
            # continue inside a nested loop would change meaning
            inner = [mm.start() for mm in re.finditer(r'\b(for|while|loop)\b', bm)]
            for mm in re.finditer(r'\bcontinue\b', bm):
                for st in inner:
                    ob = bm.find('{', st)
                    if ob >= 0 and ob < mm.start() <= match_close(bm, ob):
                        raise WeaveError('E14: `continue` inside a nested loop of %r' % anchor)
        if re.search(r'\bbreak\b', bm) or (re.search(r'\breturn\b', bm) and 'tail' not in rest):
            # with `tail` the lifted function returns the enclosing function's Result: a `return Err(..)` of the body keeps its meaning
            # (the loop shell is `for x in xs { body(x)?; }`)
            raise WeaveError('E14: loop body of %r contains break/return' % anchor)
        out = []
        last = 0
        n = 0
        ret_text = 'return'
        if 'tail' in rest:
            # the loop body uses `?`: the lifted function returns the enclosing function's Result, `continue` leaves it with <tail>
            ret_text = 'return ' + rest[rest.index('tail') + 1]
        for mm in re.finditer(r'\bcontinue\b', bm):
            out.append(body[last:mm.start()])
            out.append(ret_text)
            last = mm.end()
            n += 1
        out.append(body[last:])
        body = ''.join(out)
        rec['transformations'].append({'rule': 'E14', 'what': 'body of loop %r lifted to `%s` (%d `continue` -> `return`); the loop shell `for x in xs { body(x) }` itself is not verified (Verus for-loops do not support continue)' % (anchor, sig, n)})
    else:
        rec['transformations'].append({'rule': 'E9', 'what': 'block after %r lifted to `%s`' % (anchor, sig)})
    if 'tail' in rest:
        tail = rest[rest.index('tail') + 1]
        rec['transformations'].append({'rule': 'E9', 'what': 'lifted block is a statement of the original function; `%s` appended as the value of the lifted function' % tail})
        return sig + ' {\n' + body + ';\n' + tail + '\n}'
    return sig + ' ' + body
