#!/bin/sh
# usage: ingest_seed.sh <Cxx> [only-change-n]: copy /tmp/seed/<Cxx>/out/change{1,2} to seeded/<Cxx>-<next> (BEFORE confirming: the
# confirmation cleans the worktree, out/ included), confirm in the agent's worktree, run the check
P=$1; cd /verif
last=$(ls -d seeded/$P-* 2>/dev/null | sed "s/.*$P-//" | sort -n | tail -1); last=${last:-0}
ids=""
for n in ${2:-1 2}; do
  [ -d /tmp/seed/$P/out/change$n ] || continue
  last=$((last+1)); id=$P-$last; mkdir -p seeded/$id; cp /tmp/seed/$P/out/change$n/* seeded/$id/ 2>/dev/null
  ids="$ids $id"
done
for id in $ids; do python3 tools/confirm_seeded.py seeded/$id /tmp/seed/$P 2>&1 | tail -1; done
python3 tools/run_seeded.py $ids 2>&1 | grep -E "^($(echo $ids | sed 's/^ //; s/ /|/g')) "
