import concurrent.futures as cf
import glob
import hashlib
import json
import os
import re
import shutil
import subprocess
import sys
import tempfile
import time

import weave
import runner

VERIF = os.path.dirname(os.path.dirname(os.path.abspath(__file__)))
REPO = os.environ.get('VERIF_REPO', '/repo')
BUILD = os.path.join(VERIF, 'build')
CONTRACTS = os.path.join(VERIF, 'contracts')
EVID = os.path.join(VERIF, 'evidence')
REPLAYS = os.path.join(VERIF, 'replays')


def load_json(path, default=None):
    try:
        return json.load(open(path))
    except FileNotFoundError:
        return default


def all_units():
    out = {}
    for p in sorted(glob.glob(os.path.join(CONTRACTS, '*.rs'))):
        unit, _ = weave.parse_template(p)
        out[unit['name']] = {'path': p, 'props': unit['props'] + unit.get('also', [])}
    return out


class UnitResult:
    pass


def assumed_functions():
    return load_json(os.path.join(CONTRACTS, 'assumed_functions.json'), [])


def assumed_function_hash(repo_root, file, path):
    import hashlib, rustscan
    fp = os.path.join(repo_root, file)
    rf = rustscan.RustFile(fp, open(fp).read())
    it = rf.find(path)[-1]
    # the whole text counts, string contents included (the SQL of such a function is its substance); comments and white space do not
    txt = rf.text[it.start:it.end]
    import re as _re
    txt = _re.sub(r'//[^\n]*', '', txt)
    return hashlib.sha256(' '.join(txt.split()).encode()).hexdigest()


def changed_assumed_functions(unit_name, repo_root):
    """real functions of /repo that are NOT under contract but whose behaviour a stub of this unit assumes (contracts/assumed_functions.json):
    their token sequence is pinned; a function that no longer has it is not what the assumption was written for"""
    out = []
    for e in assumed_functions():
        if unit_name not in e['units'] or not e.get('pinned'):
            continue
        try:
            h = assumed_function_hash(repo_root, e['file'], e['path'])
        except Exception as ex:
            out.append('%s :: %s (not found: %s)' % (e['file'], e['path'], ex))
            continue
        if h != e['pinned']:
            out.append('%s :: %s' % (e['file'], e['path']))
    return out


def run_unit(tpath, repo_root, seed, build_dir=BUILD, tag='', canary=None, expand=False):
    """returns dict: status ok|fail|undecided, failures[], functions[], ub, ..."""
    r = {'template': tpath, 'status': 'ok', 'failures': [], 'frontend': [], 'resource': [], 'functions': [], 'wall_s': 0.0,
         'reason': None}
    ch = changed_assumed_functions(os.path.splitext(os.path.basename(tpath))[0], repo_root)
    # (a stub of this unit assumes the behaviour of a real function that has changed: what the unit proves no longer rests on the code as
    # it is - when nothing else fails the unit is undecided, never silently trusted and never an alarm; a failing obligation is still reported)
    try:
        ub = weave.build_unit(tpath, repo_root, canary=canary)
    except weave.WeaveError as e:
        r['status'] = 'undecided'
        r['reason'] = 'weave: %s' % e
        r['ub'] = None
        return r
    r['ub'] = ub
    os.makedirs(build_dir, exist_ok=True)
    gen_path = os.path.join(build_dir, ub.name + tag + '.rs')
    lines = list(ub.lines)
    with open(gen_path, 'w') as f:
        f.write('\n'.join(lines))
    r['gen_path'] = gen_path
    rl = None
    for attempt in range(2):
        res = runner.run_verus(gen_path, seed=seed, rlimit=rl, expand=expand)
        r['wall_s'] += res['wall_s']
        r['cmd'] = res['cmd']
        mapped = [runner.map_diag(ub, d) for d in res['diags'] if d.get('level') == 'error']
        mapped = [m for m in mapped if m['kind'] != 'ignore']
        r['failures'] = [m for m in mapped if m['kind'] == 'fail']
        r['frontend'] = [m for m in mapped if m['kind'] == 'frontend']
        r['resource'] = [m for m in mapped if m['kind'] == 'resource']
        r['functions'] = runner.function_breakdown(res)
        r['verus_results'] = (res.get('json') or {}).get('verification-results')
        r['raw_stderr'] = res['raw_stderr'] if (res['json'] is None or r['frontend']) else ''
        if r['resource'] and attempt == 0:
            rl = 80
            continue
        break
    vr = r['verus_results']
    if vr is None:
        r['status'] = 'undecided'
        r['reason'] = 'verus produced no result (rc=%s): %s' % (res['rc'], res['raw_stderr'][-2000:])
    elif r['frontend'] or vr.get('encountered-vir-error'):
        r['status'] = 'undecided'
        r['reason'] = 'front-end error: ' + '; '.join('%s (%s)' % (m['message'], m['where']) for m in r['frontend'][:5])
    elif r['resource']:
        r['status'] = 'undecided'
        r['reason'] = 'resource limit: ' + '; '.join(m['obligation'] for m in r['resource'][:5])
    elif r['failures']:
        r['status'] = 'fail'
        # failures inside a function whose proof hints were dropped (restructured code, weave 'degraded'): undecided
        degraded = {'%s/%s' % (ub.name, ex['alias']): ex['degraded'] for ex in ub.extracts if ex.get('degraded')}
        if degraded:
            lost = [m for m in r['failures'] if m.get('owner') in degraded]
            if lost:
                r['failures'] = [m for m in r['failures'] if m.get('owner') not in degraded]
                r['degraded_failures'] = lost
                if not r['failures']:
                    r['status'] = 'undecided'
                    r['reason'] = 'restructured function, proof hints lost (%s): %s could not be discharged without them' % (
                        '; '.join(x for v in degraded.values() for x in v)[:600], ', '.join(sorted(set(m['obligation'] for m in lost)))[:600])
    elif not vr.get('success'):
        r['status'] = 'undecided'
        r['reason'] = 'verus reported failure without a mapped diagnostic'
    # lifted blocks left out of the unit (lost anchors): without a failure elsewhere the unit is undecided
    r['left_out'] = list(getattr(ub, 'left_out', None) or [])
    for c in ch:
        r['left_out'].append({'alias': c, 'reason': 'a real function whose behaviour a stub of this unit assumes (contracts/assumed_functions.json) no longer has the pinned text'})
    # vacuity: every extracted fn must appear in the function breakdown
    if r['status'] in ('ok', 'fail'):
        names = [f['function'] for f in r['functions']]
        missing = []
        for ex in ub.extracts:
            if ex['kind'] != 'fn' and not any(t['rule'] in ('E9', 'E14') for t in ex['transformations']):
                continue
            if ex.get('stub_of'):
                continue
            suffix = '::' + ex['alias']
            if not any(n.endswith(suffix) or n.split('::', 1)[-1] == ex['alias'] for n in names):
                missing.append(ex['alias'])
        r['missing_functions'] = missing
        if missing and canary is None:
            r['status'] = 'undecided'
            r['reason'] = 'vacuity: extracted function(s) produced no verification query: %s' % ', '.join(missing)
    return r


def canary_line(ub, alias):
    for ex in ub.extracts:
        if ex['alias'] == alias:
            # find the opening line of the body: the first code line after the last woven clause of the spec
            cls = [c for c in ub.clauses if c.id.split('#')[0] == ex['owner'] and c.kind in ('ensures', 'requires') and 'loop' not in c.id]
            if cls:
                last = max(c.gen_lines[1] for c in cls if c.gen_lines)
                return last
    return None


def obligations_for(ub, prop, r):
    """list of obligation dicts relevant to prop with discharged flag"""
    failed_ids = {}
    for m in r['failures']:
        failed_ids.setdefault(m['obligation'], m)
    failed_owners = {}
    for m in r['failures']:
        failed_owners.setdefault(m['owner'], []).append(m)
    obs = []
    for cl in ub.clauses:
        if prop not in cl.props or cl.assumed:
            continue
        if cl.kind in ('requires', 'recommends', 'decreases'):
            # requires are assumptions of this function (obligations at call sites, counted there); decreases: termination
            if cl.kind != 'decreases':
                continue
        obs.append({'id': cl.id, 'kind': cl.kind, 'text': cl.text, 'desc': cl.desc,
                    'discharged': cl.id not in failed_ids, 'backend': 'verus-z3'})
    fnames = {f['function']: f for f in r['functions']}
    for ex in ub.extracts:
        if prop not in ex['props'] or ex.get('stub_of'):
            continue
        if ex['kind'] != 'fn' and not any(t['rule'] in ('E9', 'E14') for t in ex['transformations']):
            continue
        suffix = '::' + ex['alias']
        f = next((f for n, f in fnames.items() if n.endswith(suffix) or n.split('::', 1)[-1] == ex['alias']), None)
        # implicit obligations: callee preconditions, overflow, index bounds, unwrap, termination of recursion
        implicit_fail = [m for m in failed_owners.get(ex['owner'], []) if not any(m['obligation'] == c.id for c in ub.clauses)]
        obs.append({'id': ex['owner'] + '#safety', 'kind': 'implicit',
                    'text': 'all call-site preconditions, arithmetic overflow, indexing, unwrap obligations of %s' % ex['alias'],
                    'discharged': (f is not None) and not implicit_fail, 'backend': 'verus-z3',
                    'solver_ms': f['ms'] if f else None})
    # prelude proof functions (lemmas)
    ex_suffixes = ['::' + ex['alias'] for ex in ub.extracts if ex['kind'] == 'fn' or ex.get('stub_of')]
    for n, f in fnames.items():
        if any(n.endswith(s) for s in ex_suffixes):
            continue
        short = n.split('::', 1)[-1]
        po = next((p for p in ub.prelude_obligations if p['id'].split('/')[-1] == short.split('::')[-1]), None)
        props = po['props'] if po else ub.props
        if prop not in props:
            continue
        owner = po['id'] if po else '%s/prelude::%s' % (ub.name, short.split('::')[-1])
        bad = [m for m in r['failures'] if m['owner'] == owner]
        obs.append({'id': owner + '#lemma', 'kind': 'lemma', 'text': (po['text'] if po else 'prelude proof function ' + short),
                    'discharged': bool(f['success']) and not bad, 'backend': 'verus-z3', 'solver_ms': f['ms']})
    return obs


def scan_trust(ub):
    """mechanical scan of the generated unit: every assumption that remains (DESIGN 2.3)"""
    out = []
    text = ub.lines
    pat = re.compile(r'\b(assume\s*\(|admit\s*\(|external_body|assume_specification|exec_allows_no_decreases_clause|external_fn_specification|external_type_specification|uninterp\s+spec)')
    for i, ln in enumerate(text):
        code = ln.split('//')[0]
        mm = pat.search(code)
        if not mm:
            continue
        kind = mm.group(1).strip(' (')
        # describe by the next fn / item header
        desc = ''
        for k in range(i, min(i + 6, len(text))):
            m2 = re.search(r'\b(fn\s+[A-Za-z0-9_]+|assume_specification\s*(<[^>]*>)?\s*\[[^\]]*\]|struct\s+\w+|type\s+\w+)', text[k])
            if m2:
                desc = re.sub(r'\s+', ' ', m2.group(0))
                break
        out.append('%s: %s [%s]' % (kind, desc, ub.name))
    seen = []
    for o in out:
        if o not in seen:
            seen.append(o)
    return seen


def known_findings():
    kf = load_json(os.path.join(VERIF, 'known_findings.json'), {'findings': [], 'fixed': []})
    return kf


def write_replay(prop, m, unit_r, extra=None):
    os.makedirs(REPLAYS, exist_ok=True)
    name = '%s-%s.json' % (prop, re.sub(r'[^A-Za-z0-9_.-]+', '_', m['obligation'])[:120])
    path = os.path.join(REPLAYS, name)
    ub = unit_r['ub']
    item = None
    clause = None
    if ub is not None:
        for ex in ub.extracts:
            if ex['owner'] == m['owner']:
                item = {k: ex[k] for k in ('file', 'path', 'src_line_start', 'src_line_end', 'sha256')}
        clause = next((c for c in ub.clauses if c.id == m['obligation']), None)
    doc = {
        'property': prop,
        'obligation': m['obligation'],
        'clause_text': clause.text if clause else None,
        'clause_meaning': clause.desc if clause else None,
        'verifier_message': m['message'],
        'where_in_repo': m['where'],
        'source_text': m['src_text'],
        'repo_item': item,
        'unit': ub.name if ub is not None else 'kani',
        'generated_file': unit_r.get('gen_path'),
        'checker_cmd': unit_r.get('cmd'),
        'verifier_output': m['rendered'],
        'counterexample': None,
        'note': 'Verus gives no counterexample; no-failing-input-found unless a Kani/witness search below succeeded',
    }
    if extra:
        doc.update(extra)
    with open(path, 'w') as f:
        json.dump(doc, f, indent=1)
    return path


def prop_meta(prop):
    meta = load_json(os.path.join(CONTRACTS, 'properties.json'), {})
    return meta.get(prop, {})


def run_units_parallel(units, repo_root, seed, **kw):
    res = {}
    with cf.ThreadPoolExecutor(max_workers=min(16, max(1, len(units)))) as ex:
        futs = {ex.submit(run_unit, u['path'], repo_root, seed, **kw): name for name, u in units.items()}
        for f in cf.as_completed(futs):
            res[futs[f]] = f.result()
    return res


def kani_harnesses(prop, tier):
    hs = load_json(os.path.join(CONTRACTS, 'kani_harnesses.json'), [])
    return [h for h in hs if prop in h['props'] and (h.get('tier', 'quick') == 'quick' or tier == 'thorough')]


def run_kani(prop, tier):
    hs = kani_harnesses(prop, tier)
    if not hs:
        return [], {}
    import kani_run
    res = kani_run.run(REPO, [h['harness'] for h in hs])
    return hs, res


def check_property(prop, tier, seed, replay=None):
    t0 = time.time()
    units = {n: u for n, u in all_units().items() if prop in u['props']}
    khs = kani_harnesses(prop, tier)
    if not units and not khs:
        print('no unit serves property %s' % prop, file=sys.stderr)
        return 2
    with cf.ThreadPoolExecutor(max_workers=2) as kex:
        kfut = kex.submit(run_kani, prop, tier)
        results = run_units_parallel(units, REPO, seed) if units else {}
        khs, kres = kfut.result()
    undecided = [(n, r) for n, r in results.items() if r['status'] == 'undecided']
    kf = known_findings()
    known = {(k['property'], k['obligation']): k for k in kf.get('findings', [])}
    violations = []
    known_hit = []
    all_obs = []
    trusted = []
    functions = []
    transformations = []
    solver_ms = 0.0
    for n, r in sorted(results.items()):
        ub = r.get('ub')
        if ub is None:
            continue
        trusted.extend(scan_trust(ub))
        for ex in ub.extracts:
            if prop in ex['props'] and not ex.get('stub_of') and (ex['kind'] == 'fn' or any(t['rule'] in ('E9', 'E14') for t in ex['transformations'])):
                functions.append({'unit': n, 'function': ex['alias'], 'file': ex['file'], 'lines': [ex['src_line_start'], ex['src_line_end']],
                                  'sha256': ex['sha256'], 'woven_clauses': len(ex['clauses'])})
        transformations.extend({'unit': n, **t} for t in ub.transformations)
        solver_ms += sum(f['ms'] for f in r['functions'])
        if r['status'] == 'undecided':
            continue
        all_obs.extend(obligations_for(ub, prop, r))
        seen = set()
        for m in r['failures']:
            if prop not in m['props']:
                continue
            if m['obligation'] in seen:
                continue
            seen.add(m['obligation'])
            k = known.get((prop, m['obligation']))
            if k:
                known_hit.append((k, m))
            else:
                violations.append((m, r))
    # Kani harnesses: complete ones are obligations (backend kani-cbmc); bounded ones are stand-ins, never counted as proved
    kani_info = []
    kani_undecided = []
    for h in khs:
        r = kres.get(h['harness'], {'status': 'undecided', 'failed_checks': [], 'output_tail': 'not run'})
        oid = 'kani/' + h['harness']
        rec = {'id': oid, 'kind': h['kind'], 'bound': h['bound'], 'function': h['function'], 'what': h['what'], 'status': r['status'],
               'seconds': r.get('seconds'), 'cmd': r.get('cmd')}
        kani_info.append(rec)
        if h['kind'] == 'complete':
            all_obs.append({'id': oid, 'kind': 'kani-complete', 'text': h['what'], 'desc': 'loop-free harness over the full input domain (%s)' % h['bound'],
                            'discharged': r['status'] == 'ok', 'backend': 'kani-cbmc', 'solver_ms': (r.get('seconds') or 0) * 1000})
        if r['status'] == 'fail':
            k = known.get((prop, oid))
            m = {'obligation': oid, 'props': h['props'], 'message': '; '.join('%s at %s:%s' % (c['check'], c['file'], c['line']) for c in r['failed_checks']) or 'Kani check failed',
                 'owner': oid, 'where': ('%s:%s' % (r['failed_checks'][0]['file'], r['failed_checks'][0]['line'])) if r['failed_checks'] else None,
                 'src_text': h['function'], 'rendered': r.get('output_tail', ''), 'kani': True, 'kind': 'fail'}
            if k:
                known_hit.append((k, m))
            else:
                violations.append((m, {'ub': None, 'cmd': r.get('cmd'), 'gen_path': 'harness/kani/verif_kani.rs', 'kani': h}))
        elif r['status'] != 'ok':
            kani_undecided.append((h['harness'], r.get('output_tail', '')[-600:]))
    rc = 0
    lines = []
    for k, m in known_hit:
        lines.append('KNOWN-FINDING: property=%s %s [%s]' % (prop, k['what'], k['obligation']))
    # findings on code that is not under contract: listed with their witness, reported on every run, not re-evaluated here
    for k in kf.get('findings', []):
        if k['property'] == prop and not k.get('obligation'):
            lines.append('KNOWN-FINDING: property=%s %s [not re-evaluated by the verifier: %s; witness: %s]' % (prop, k['what'], k['call_site'], k['witness']))
    # lifted blocks left out of a unit (anchors lost on restructured code): the rest of the unit was decided; with no violation the
    # property is undecided, since those blocks could not be checked
    left_out = [(n, x) for n, r in sorted(results.items()) for x in (r.get('left_out') or [])]
    if (undecided or kani_undecided or left_out) and not violations:
        rc = 2
    for m, r in violations:
        extra = None
        if r.get('ub') is not None:
            extra = expand_failure(r, m, seed)
        elif m.get('kani'):
            try:
                import kani_run
                pb = kani_run.playback(REPO, m['obligation'].split('/')[-1])
                if pb:
                    extra = {'counterexample': pb, 'note': 'concrete failing input found by Kani (values of the symbolic inputs of the harness, in order)'}
            except Exception as e:
                extra = {'note': 'Kani concrete playback failed: %s' % e}
        path = write_replay(prop, m, r, extra)
        tail = 'no-failing-input-found'
        if extra and extra.get('counterexample'):
            tail = 'failing-input-in-replay'
        lines.append('VIOLATION property=%s replay=%s obligation=%s %s' % (prop, path, m['obligation'], tail))
        rc = 1
    thorough_info = None
    if tier == 'thorough' and rc == 0:
        thorough_info, trc, tlines = thorough(prop, units, results, seed)
        lines.extend(tlines)
        if trc != 0:
            rc = trc
    wall = time.time() - t0
    write_evidence(prop, tier, seed, all_obs, trusted, functions, transformations, results, undecided, violations, known_hit,
                   wall, solver_ms, thorough_info, kani_info)
    for ln in lines:
        print(ln)
    for n, r in undecided:
        print('UNDECIDED unit=%s: %s' % (n, r['reason']), file=sys.stderr)
    for n, x in left_out:
        print('UNDECIDED unit=%s: %s not decided (%s)' % (n, x['alias'], x['reason']), file=sys.stderr)
    for n, t in kani_undecided:
        print('UNDECIDED kani harness=%s: %s' % (n, t), file=sys.stderr)
    if rc == 0:
        kf_ids = set(k['obligation'] for k, m in known_hit)
        kf_ids |= set(x.split('#')[0] + '#lemma' for x in kf_ids)      # an isolated lemma that IS the finding
        all_obs = [o for o in all_obs if o['id'] not in kf_ids]
        nd = sum(1 for o in all_obs if o['discharged'])
        print('OK property=%s obligations=%d discharged=%d units=%s wall=%.1fs' % (prop, len(all_obs), nd, ','.join(sorted(units)), wall))
    return rc


def expand_failure(r, m, seed):
    """re-run the failing unit with --expand-errors to name the failing conjunct"""
    try:
        res = runner.run_verus(r['gen_path'], seed=seed, expand=True)
        txt = []
        for d in res['diags']:
            if d.get('level') == 'error' and runner.classify(d.get('message', '')) == 'fail':
                mm = runner.map_diag(r['ub'], d)
                if mm['owner'] == m['owner']:
                    txt.append(d.get('rendered', ''))
        return {'expanded_errors': txt[:6]}
    except Exception as e:
        return {'expanded_errors': ['(expand-errors run failed: %s)' % e]}


def write_evidence(prop, tier, seed, obs, trusted, functions, transformations, results, undecided, violations, known_hit, wall,
                   solver_ms, thorough_info, kani_info=None):
    os.makedirs(EVID, exist_ok=True)
    meta = prop_meta(prop)
    # obligations recorded as known findings are reported separately: they are neither counted nor claimed
    kf_ids = set(k['obligation'] for k, m in known_hit)
    kf_ids |= set(x.split('#')[0] + '#lemma' for x in kf_ids)      # an isolated lemma that IS the finding
    obs = [o for o in obs if o['id'] not in kf_ids]
    n = len(obs)
    nd = sum(1 for o in obs if o['discharged'])
    tb = []
    for t in trusted:
        if t not in tb:
            tb.append(t)
    # real functions NOT under contract whose behaviour a stub of one of the units assumes: their text is pinned (a change makes the unit undecided)
    unit_names = set(os.path.splitext(os.path.basename(r_['template']))[0] for r_ in results.values() if r_.get('template'))
    for e in assumed_functions():
        if unit_names & set(e['units']):
            t = 'ASSUMED real function (not under contract, text pinned): %s :: %s - %s' % (e['file'], e['path'], e['why'])
            if t not in tb:
                tb.append(t)
    samples = []
    for o in obs:
        if o['kind'] in ('ensures', 'invariant', 'lemma', 'assert') and len(samples) < 8:
            samples.append({'obligation': o['id'], 'kind': o['kind'], 'clause': o['text'][:400], 'meaning': o.get('desc', ''),
                            'discharged': o['discharged']})
    if not samples:
        samples = [{'obligation': o['id'], 'kind': o['kind'], 'clause': o['text'][:400], 'discharged': o['discharged']} for o in obs[:4]]
    cmds = sorted(set(r.get('cmd', '') for r in results.values() if r.get('cmd')))
    ev = {
        'property_id': prop,
        'tier': tier,
        'seed': seed,
        'level': 'proof',
        'coverage': {
            'obligations': n,
            'discharged': nd,
            'checker_cmd': ' ; '.join(cmds) if cmds else 'verus (not run: undecided)',
            'trusted_base': tb + meta.get('trusted_extra', []),
            'samples': samples,
            'functions_under_contract': functions,
            'obligation_list': [{'id': o['id'], 'kind': o['kind'], 'discharged': o['discharged'], 'backend': o['backend'],
                                 'solver_ms': o.get('solver_ms')} for o in obs],
            'backends': {'verus-z3': sum(1 for o in obs if o['backend'] == 'verus-z3'), 'kani-cbmc': sum(1 for o in obs if o['backend'] == 'kani-cbmc')},
            'kani_harnesses': kani_info or [],
            'solver_ms_total': round(solver_ms, 1),
            'extraction_transformations': transformations,
            'units': {nm: {'status': r['status'], 'reason': r.get('reason'), 'wall_s': round(r.get('wall_s', 0), 2),
                           'verus_results': r.get('verus_results')} for nm, r in results.items()},
            'known_findings_still_present': [k['obligation'] for k, m in known_hit],
            'not_decided': meta.get('not_decided', []),
            'bounded_standins': [k for k in (kani_info or []) if k['kind'] == 'bounded'],
            'thorough': thorough_info,
            'explanation': meta.get('explanation', ''),
        },
        'assumptions': meta.get('assumptions', []),
        'wall_s': round(wall, 2),
        'violations': len(violations),
    }
    with open(os.path.join(EVID, prop + '.json'), 'w') as f:
        json.dump(ev, f, indent=1)


# ------------------------------------------------------------------ thorough tier
def thorough(prop, units, results, seed):
    info = {'canaries': [], 'kill_mutants': [], 'bounded_standins': []}
    lines = []
    rc = 0
    # (b) canaries: `ensures false` appended to each contracted function must fail
    jobs = []
    for n, u in units.items():
        ub = results[n].get('ub')
        if ub is None:
            continue
        for ex in ub.extracts:
            if prop in ex['props'] and ex['kind'] == 'fn' and not ex.get('stub_of') and canary_line(ub, ex['alias']):
                jobs.append((n, u['path'], ex['alias']))
    with cf.ThreadPoolExecutor(max_workers=12) as ex:
        futs = {ex.submit(run_unit, p, REPO, seed, tag='_canary_' + re.sub(r'\W+', '_', a), canary=a): (n, a) for n, p, a in jobs}
        for f in cf.as_completed(futs):
            n, a = futs[f]
            r = f.result()
            ok = r['status'] == 'fail' and any(m['obligation'].endswith('/' + a + '#canary') for m in r['failures'])
            info['canaries'].append({'unit': n, 'function': a, 'fails_as_expected': ok})
            try:
                os.remove(r.get('gen_path', ''))
            except OSError:
                pass
            if not ok:
                lines.append('UNDECIDED canary: `ensures false` on %s/%s did not fail (vacuous contract?)' % (n, a))
                rc = 2
    # kill mutants
    mfile = os.path.join(VERIF, 'mutants', 'mutants.json')
    muts = [m for m in load_json(mfile, []) if prop in m.get('props', [])]
    if muts:
        info['kill_mutants'] = run_mutants(muts, units, seed)
        for km in info['kill_mutants']:
            if not km['killed']:
                lines.append('NOTE kill mutant not detected: %s' % km['name'])
    # harmless edits (same meaning, other text): none may alarm; an edit that loses an anchor is reported as undecided
    hfile = os.path.join(VERIF, 'mutants', 'harmless.json')
    hs = [h for h in load_json(hfile, []) if h.get('unit') in units]
    if hs:
        res = run_mutants(hs, units, seed)
        info['harmless_edits'] = [{'name': r['name'], 'alarm': r['killed'], 'undecided': any(str(o).startswith('undecided') for o in r.get('obligations', [])), 'note': r.get('note')} for r in res]
        for r in info['harmless_edits']:
            if r['alarm']:
                lines.append('NOTE harmless edit raised an alarm (false alarm): %s' % r['name'])
            elif r['undecided'] or r['note']:
                lines.append('NOTE harmless edit left undecided: %s %s' % (r['name'], r['note'] or ''))
    return info, rc, lines


def run_mutants(muts, units, seed):
    out = []

    def one(mu):
        tmp = tempfile.mkdtemp(prefix='verif_mut_', dir=os.environ.get('VERIF_SCRATCH', '/var/tmp'))
        try:
            shutil.copytree(os.path.join(REPO, 'src'), os.path.join(tmp, 'src'))
            p = os.path.join(tmp, mu['file'])
            s = open(p).read()
            if s.count(mu['find']) < 1:
                return {'name': mu['name'], 'killed': False, 'note': 'anchor text not found (stale mutant)'}
            s2 = s.replace(mu['find'], mu['replace'], 1)
            if mu.get('find2'):
                if s2.count(mu['find2']) < 1:
                    return {'name': mu['name'], 'killed': False, 'note': 'anchor text 2 not found (stale mutant)'}
                s2 = s2.replace(mu['find2'], mu['replace2'], 1)
            open(p, 'w').write(s2)
            killed = False
            hit = []
            kf_obl = set(k.get('obligation') for k in known_findings().get('findings', []))
            for n, u in units.items():
                if mu.get('unit') and mu['unit'] != n:
                    continue
                r = run_unit(u['path'], tmp, seed, build_dir=os.path.join(tmp, 'build'))
                if r['status'] == 'fail':
                    new = [m['obligation'] for m in r['failures'] if m['obligation'] not in kf_obl]
                    if new:
                        killed = True
                    hit.extend(new)
                elif r['status'] == 'undecided':
                    hit.append('undecided: %s' % r['reason'])
            return {'name': mu['name'], 'killed': killed, 'obligations': sorted(set(hit))[:6]}
        finally:
            shutil.rmtree(tmp, ignore_errors=True)

    with cf.ThreadPoolExecutor(max_workers=8) as ex:
        for r in ex.map(one, muts):
            out.append(r)
    return out


def main(argv):
    import argparse
    ap = argparse.ArgumentParser()
    ap.add_argument('prop', nargs='?')
    ap.add_argument('--tier', default=os.environ.get('VERIF_TIER', 'quick'))
    ap.add_argument('--replay')
    ap.add_argument('--unit')
    ap.add_argument('--show', action='store_true')
    ap.add_argument('--repo')
    ap.add_argument('--pin', action='store_true', help='record the token sequences of every extracted item of the current tree (run on the pinned tree only)')
    a = ap.parse_args(argv)
    global REPO
    if a.repo:
        REPO = a.repo
    seed = int(os.environ.get('VERIF_SEED', '0') or 0)
    if os.environ.get('VERIF_TIER'):
        a.tier = os.environ['VERIF_TIER']
    if a.pin:
        out = {}
        for n, u in all_units().items():
            ub = weave.build_unit(u['path'], REPO)
            for ex in ub.extracts:
                out['%s::%s' % (ex['file'], ex['path'])] = ex['tokens']
        with open(os.path.join(CONTRACTS, 'pinned_tokens.json'), 'w') as f:
            json.dump(out, f)
        loops = {}
        for n, u in all_units().items():
            ub = weave.build_unit(u['path'], REPO)
            for ex in ub.extracts:
                if ex.get('loops') and ex['loops'].get('ord'):
                    loops['%s::%s::%s' % (ex['file'], ex['path'], ex['alias'])] = ex['loops']
        with open(os.path.join(CONTRACTS, 'pinned_loops.json'), 'w') as f:
            json.dump(loops, f)
        cuts = {}
        for n, u in all_units().items():
            ub = weave.build_unit(u['path'], REPO)
            for ex in ub.extracts:
                cuts.update(ex.get('cut_pins') or {})
        with open(os.path.join(CONTRACTS, 'pinned_cuts.json'), 'w') as f:
            json.dump(cuts, f, indent=1)
        sqlp = {}
        for n, u in all_units().items():
            ub = weave.build_unit(u['path'], REPO)
            for ex in ub.extracts:
                if ex.get('sql_hash'):
                    sqlp['%s::%s::%s' % (ex['file'], ex['path'], ex['alias'])] = ex['sql_hash']
        with open(os.path.join(CONTRACTS, 'pinned_sql.json'), 'w') as f:
            json.dump(sqlp, f, indent=1)
        af = assumed_functions()
        for e in af:
            e['pinned'] = assumed_function_hash(REPO, e['file'], e['path'])
        if af:
            with open(os.path.join(CONTRACTS, 'assumed_functions.json'), 'w') as f:
                json.dump(af, f, indent=1)
        print('pinned %d items' % len(out))
        return 0
    if a.unit:
        us = all_units()
        u = us.get(a.unit) or next((v for k, v in us.items() if k.startswith(a.unit)), None)
        if u is None:
            print('no such unit; have: %s' % ', '.join(us))
            return 2
        r = run_unit(u['path'], REPO, seed)
        print('status:', r['status'], r.get('reason') or '')
        if a.show or r['status'] == 'undecided':
            for m in r['frontend'][:10]:
                print(m['rendered'])
            if r.get('raw_stderr') and not r['frontend']:
                print(r['raw_stderr'][-3000:])
        for m in r['failures']:
            print('FAIL %s  props=%s  (%s) at %s' % (m['obligation'], m['props'], m['message'], m['where']))
            if a.show:
                print(m['rendered'])
        for f in r['functions']:
            print('   %-60s %-6s %8.1fms %s' % (f['function'], f['mode'], f['ms'], 'ok' if f['success'] else 'FAILED'))
        print('wall %.1fs' % r['wall_s'])
        return 0 if r['status'] == 'ok' else (1 if r['status'] == 'fail' else 2)
    if not a.prop:
        ap.print_help()
        return 2
    if a.replay:
        return replay(a.prop, a.replay, seed)
    return check_property(a.prop, a.tier, seed)


def replay(prop, path, seed):
    doc = load_json(path)
    if doc is None:
        print('no such replay file', file=sys.stderr)
        return 2
    units = {n: u for n, u in all_units().items() if n == doc['unit']}
    results = run_units_parallel(units, REPO, seed, expand=True)
    r = results[doc['unit']]
    for m in r['failures']:
        if m['obligation'] == doc['obligation']:
            print(m['rendered'])
            print('VIOLATION property=%s replay=%s obligation=%s no-failing-input-found' % (prop, path, m['obligation']))
            return 1
    if r['status'] == 'undecided':
        print('UNDECIDED: %s' % r['reason'], file=sys.stderr)
        return 2
    print('obligation %s is discharged on the current tree' % doc['obligation'])
    return 0
