#!/usr/bin/env python3
"""Run Kani harnesses on a scratch copy of /repo with harness/kani/verif_kani.rs woven in under cfg(kani).
usage: kani_run.py <repo> <harness> [<harness> ...]   -> JSON on stdout: {harness: {status, seconds, failed_checks, output_tail}}"""
import json, os, re, shutil, subprocess, sys, time

V = os.path.dirname(os.path.dirname(os.path.abspath(__file__)))
SCR = os.path.join(V, 'build', 'kani_scratch')
TGT = os.path.join(V, 'build', 'kani_target')


def prepare(repo):
    os.makedirs(SCR, exist_ok=True)
    dst = os.path.join(SCR, 'repo')
    subprocess.run(['rsync', '-a', '--delete', '--exclude', 'target', '--exclude', '.git', repo.rstrip('/') + '/', dst + '/'], check=True)
    shutil.copy(os.path.join(V, 'harness', 'kani', 'verif_kani.rs'), os.path.join(dst, 'src', 'verif_kani.rs'))
    lib = os.path.join(dst, 'src', 'lib.rs')
    s = open(lib).read()
    if 'mod verif_kani;' not in s:
        s += '\n#[cfg(kani)]\nmod verif_kani;\n'
        # harnesses use an unsafe zeroed value for an opaque key: lib.rs forbids unsafe, relaxed under cfg(kani) only
        s = s.replace('#![forbid(unsafe_code)]', '#![cfg_attr(not(kani), forbid(unsafe_code))]')
        open(lib, 'w').write(s)
    return dst


def run(repo, harnesses, timeout=2400, jobs=8):
    dst = prepare(repo)
    env = dict(os.environ, CARGO_NET_OFFLINE='true')
    cmd = ['cargo', 'kani', '--target-dir', TGT, '-Z', 'stubbing', '-j', str(jobs), '--output-format', 'terse']
    for h in harnesses:
        cmd += ['--harness', h]
    t0 = time.time()
    try:
        p = subprocess.run(cmd, cwd=dst, env=env, capture_output=True, text=True, timeout=timeout)
        txt = p.stdout + '\n' + p.stderr
        rc = p.returncode
    except subprocess.TimeoutExpired as e:
        so = e.stdout.decode() if isinstance(e.stdout, bytes) else (e.stdout or '')
        se = e.stderr.decode() if isinstance(e.stderr, bytes) else (e.stderr or '')
        txt = so + '\n' + se + '\nTIMEOUT'
        rc = 124
    wall = time.time() - t0
    out = {}
    # with -j the output of each worker is prefixed "Thread N: "; a worker prints "Checking harness X..." and later its result block
    seen = {}
    cur = {}
    parts = re.split(r'(?m)^Thread (\d+): ', txt)
    if len(parts) > 1:
        for k in range(1, len(parts), 2):
            th, seg = parts[k], parts[k + 1]
            mm = re.match(r'Checking harness (\S+?)\.\.\.', seg)
            if mm:
                cur[th] = mm.group(1).split('::')[-1]
                seen.setdefault(cur[th], '')
                seg = seg[mm.end():]
            if th in cur:
                seen[cur[th]] += seg
    else:
        for b in re.split(r'(?m)^Checking harness ', txt)[1:]:
            seen[b.split('...', 1)[0].strip().split('::')[-1]] = b
    for h in harnesses:
        b = seen.get(h)
        st = 'undecided'
        failed = []
        secs = None
        if b is not None:
            if 'VERIFICATION:- SUCCESSFUL' in b:
                st = 'ok'
            elif 'VERIFICATION:- FAILED' in b:
                st = 'fail'
            failed = re.findall(r'Failed Checks: (.*)\n\s*File: "([^"]+)", line (\d+), in (\S+)', b)
            mm = re.search(r'Verification Time: ([0-9.]+)s', b)
            secs = float(mm.group(1)) if mm else None
        out[h] = {'status': st, 'rc': rc, 'seconds': secs, 'cmd': 'CARGO_NET_OFFLINE=true ' + ' '.join(cmd),
                  'failed_checks': [{'check': a, 'file': b2, 'line': int(c), 'fn': d} for a, b2, c, d in failed],
                  'output_tail': (b or txt)[-1500:]}
    out['_wall_s'] = round(wall, 1)
    return out


def playback(repo, harness, timeout=1200):
    """concrete counterexample of a failing harness: the unit test Kani generates (-Z concrete-playback)"""
    dst = prepare(repo)
    env = dict(os.environ, CARGO_NET_OFFLINE='true')
    cmd = ['cargo', 'kani', '--target-dir', TGT, '-Z', 'stubbing', '-Z', 'concrete-playback', '--concrete-playback=print',
           '--output-format', 'terse', '--harness', harness]
    try:
        p = subprocess.run(cmd, cwd=dst, env=env, capture_output=True, text=True, timeout=timeout)
    except subprocess.TimeoutExpired:
        return None
    t = p.stdout + p.stderr
    m = re.search(r'Concrete playback unit test for `[^`]*`:\s*```\n(.*?)```', t, re.S)
    if not m:
        return None
    return {'cmd': 'CARGO_NET_OFFLINE=true ' + ' '.join(cmd), 'unit_test': m.group(1),
            'how_to_replay': 'add the unit test to src/verif_kani.rs of the scratch copy (build/kani_scratch/repo) and run: cargo kani playback -Z concrete-playback --target-dir build/kani_target -- ' + 'kani_concrete_playback_' + harness}


if __name__ == '__main__':
    print(json.dumps(run(sys.argv[1], sys.argv[2:]), indent=1))
