#!/usr/bin/env python3
"""Run Kani harnesses on a scratch copy of /repo with harness/kani/verif_kani.rs woven in under cfg(kani).
usage: kani_run.py <repo> <harness> [<harness> ...]   -> JSON on stdout: {harness: {status, seconds, failed_checks, output_tail}}"""
import json, os, re, shutil, subprocess, sys, time

V = os.path.dirname(os.path.dirname(os.path.abspath(__file__)))
SCR = os.path.join(V, 'build', 'kani_scratch')
TGT = os.path.join(V, 'build', 'kani_target')


def prepare(repo):
    os.makedirs(SCR, exist_ok=True)
    dst = os.path.join(SCR, 'repo')
    subprocess.run(['rsync', '-a', '--delete', '--exclude', 'target', '--exclude', '.git', repo.rstrip('/') + '/', dst + '/'], check=True)
    shutil.copy(os.path.join(V, 'harness', 'kani', 'verif_kani.rs'), os.path.join(dst, 'src', 'verif_kani.rs'))
    lib = os.path.join(dst, 'src', 'lib.rs')
    s = open(lib).read()
    if 'mod verif_kani;' not in s:
        s += '\n#[cfg(kani)]\nmod verif_kani;\n'
        # harnesses use unsafe zeroed values for opaque keys: lib.rs forbids unsafe, relax under cfg(kani) only
        s = s.replace('#![forbid(unsafe_code)]', '#![cfg_attr(not(kani), forbid(unsafe_code))]')
        open(lib, 'w').write(s)
    return dst


def run(repo, harnesses, timeout=1500):
    dst = prepare(repo)
    out = {}
    env = dict(os.environ, CARGO_NET_OFFLINE='true')
    for h in harnesses:
        t0 = time.time()
        cmd = ['cargo', 'kani', '--target-dir', TGT, '-Z', 'stubbing', '--harness', h]
        try:
            p = subprocess.run(cmd, cwd=dst, env=env, capture_output=True, text=True, timeout=timeout)
            txt = p.stdout + p.stderr
            rc = p.returncode
        except subprocess.TimeoutExpired as e:
            txt = (e.stdout or '') + (e.stderr or '') if isinstance(e.stdout, str) else 'timeout'
            rc = 124
        st = 'undecided'
        if 'VERIFICATION:- SUCCESSFUL' in txt:
            st = 'ok'
        elif 'VERIFICATION:- FAILED' in txt:
            st = 'fail'
        failed = re.findall(r'Failed Checks: (.*)\n\s*File: "([^"]+)", line (\d+), in (\S+)', txt)
        out[h] = {'status': st, 'rc': rc, 'seconds': round(time.time() - t0, 1), 'cmd': 'CARGO_NET_OFFLINE=true ' + ' '.join(cmd),
                  'failed_checks': [{'check': a, 'file': b, 'line': int(c), 'fn': d} for a, b, c, d in failed],
                  'output_tail': txt[-3000:]}
    return out


if __name__ == '__main__':
    print(json.dumps(run(sys.argv[1], sys.argv[2:]), indent=1))
