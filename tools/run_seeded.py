#!/usr/bin/env python3
"""Apply every confirmed seeded change of /verif/seeded/<Cxx-n>/ to /repo (working tree only), run the check of its
property, record the outcome in seeded/<id>/result.json, and undo the change.  Never commits anything in /repo."""
R = __import__('os').environ.get('VERIF_REPO', '/repo')   # the tree the patches are applied to (a snapshot under `vp run --with-repo`)
import glob, json, os, re, subprocess, sys
V = os.path.dirname(os.path.dirname(os.path.abspath(__file__)))
rows = []
only = set(sys.argv[1:])   # optional: seed ids to run (results of the others are kept from their result.json)
for d in sorted(glob.glob(os.path.join(V, 'seeded', 'C*-*'))):
    sid = os.path.basename(d)
    if only and sid not in only:
        rj = os.path.join(d, 'result.json')
        if os.path.exists(rj):
            r0 = json.load(open(rj))
            rows.append((sid, r0['outcome'], ', '.join(o.split('/')[-1] for o in r0.get('violated_obligations', []))[:110]))
        continue
    prop = sid.split('-')[0]
    patch = os.path.join(d, 'patch.diff')
    st = subprocess.run(['git', '-C', R, 'status', '--porcelain', '--untracked-files=no'], capture_output=True, text=True).stdout.strip()
    if st:
        print('refusing: /repo working tree is not clean'); sys.exit(2)
    a = subprocess.run(['git', '-C', R, 'apply', patch], capture_output=True, text=True)
    if a.returncode != 0:
        rows.append((sid, 'patch does not apply', '')); continue
    try:
        p = subprocess.run([os.path.join(V, 'check'), prop, '--tier', 'quick'], capture_output=True, text=True, cwd=V, timeout=1800)
    finally:
        subprocess.run(['git', '-C', R, 'checkout', '--', '.'])
    viol = [l for l in p.stdout.split('\n') if l.startswith('VIOLATION')]
    obl = sorted(set(re.findall(r'obligation=(\S+)', '\n'.join(viol))))
    outcome = 'detected' if p.returncode == 1 and viol else ('undecided (exit 2)' if p.returncode == 2 else 'missed (exit 0)')
    res = {'seed': sid, 'property': prop, 'check_cmd': './check %s --tier quick' % prop, 'exit_code': p.returncode, 'outcome': outcome,
           'violated_obligations': obl, 'stderr_tail': p.stderr[-600:], 'confirmed': json.load(open(os.path.join(d, 'confirmed.json'))).get('confirmed') if os.path.exists(os.path.join(d, 'confirmed.json')) else None}
    json.dump(res, open(os.path.join(d, 'result.json'), 'w'), indent=1)
    rows.append((sid, outcome, ', '.join(o.split('/')[-1] for o in obl)[:110]))
for r in rows:
    print('%-8s %-20s %s' % r)
json.dump([{'seed': a, 'outcome': b, 'obligations': c} for a, b, c in rows], open(os.path.join(V, 'seeded', 'SUMMARY.json'), 'w'), indent=1)
