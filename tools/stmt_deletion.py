#!/usr/bin/env python3
"""Teeth sweep: for every real function under contract, delete ONE statement at a time (an expression statement that is a call, or an
assignment; never a `let`, which would not compile) in a scratch copy of src/, run the function's unit, and record whether some
obligation dies.  A survivor is either a statement the property does not depend on (logging, replies, unrelated bookkeeping) or a weak
contract: the list is triaged by hand (mutants/stmt_deletion_survivors.json).  usage: stmt_deletion.py [unit ...]"""
import concurrent.futures as cf, json, os, re, shutil, sys, tempfile
sys.path.insert(0, os.path.dirname(os.path.abspath(__file__)))
import driver, weave
from rustscan import mask


def statements(code):
    """(start, end, text) of deletable statements inside a function text"""
    m = mask(code)
    out = []
    # candidates: a statement start is the first non-blank char after `{`, `;` or `}` ; ends at the next `;` at the same depth
    starts = [mm.end() for mm in re.finditer(r'[{;}]\s*', m)]
    for st in starts:
        if st >= len(m):
            continue
        head = m[st:st + 60]
        if re.match(r'(let|if|for|while|loop|match|return|continue|break|else|fn|struct|impl|use|const|static|//|#|\}|$)', head):
            continue
        # walk to the terminating ';' at depth 0
        k = st
        depth = 0
        ok = False
        while k < len(m):
            c = m[k]
            if c in '([{':
                k = weave.match_close(m, k) + 1
                continue
            if c in ')]}':
                break
            if c == ';':
                ok = True
                break
            k += 1
        if not ok:
            continue
        text = code[st:k + 1]
        if '=>' in m[st:k]:          # a match arm expression
            continue
        if not re.search(r'\(|=', m[st:k]):
            continue
        if text.strip().endswith('?;') or '.await' in text or re.search(r'\w\s*\(', text) or re.search(r'[^=!<>]=[^=]', text):
            out.append((st, k + 1, text))
    return out


def main():
    only = set(sys.argv[1:])
    units = driver.all_units()
    jobs = []
    for n, u in sorted(units.items()):
        if only and n not in only:
            continue
        ub = weave.build_unit(u['path'], driver.REPO)
        seen = set()
        for ex in ub.extracts:
            if ex.get('stub_of') or not (ex['kind'] == 'fn' or any(t['rule'] in ('E9', 'E14') for t in ex['transformations'])):
                continue
            key = (ex['file'], tuple(ex['byte_range']))
            if key in seen:
                continue
            seen.add(key)
            src = open(os.path.join(driver.REPO, ex['file'])).read()
            a, b = ex['byte_range']
            body = src[a:b]
            for (s0, s1, text) in statements(body):
                jobs.append({'unit': n, 'file': ex['file'], 'fn': ex['alias'], 'start': a + s0, 'end': a + s1, 'text': text.strip()[:160]})
    print('%d deletion mutants' % len(jobs), file=sys.stderr)
    kf_obl = set(k.get('obligation') for k in driver.known_findings().get('findings', []))

    def one(j):
        tmp = tempfile.mkdtemp(prefix='verif_sd_', dir=os.environ.get('VERIF_SCRATCH', '/var/tmp'))
        try:
            shutil.copytree(os.path.join(driver.REPO, 'src'), os.path.join(tmp, 'src'))
            p = os.path.join(tmp, j['file'])
            s = open(p).read()
            s2 = s[:j['start']] + ' ' * (j['end'] - j['start']) + s[j['end']:]
            open(p, 'w').write(s2)
            r = driver.run_unit(units[j['unit']]['path'], tmp, 0, build_dir=os.path.join(tmp, 'build'))
            if r['status'] == 'fail':
                new = [m['obligation'] for m in r['failures'] if m['obligation'] not in kf_obl]
                j['outcome'] = 'killed' if new else 'alive'
                j['obligations'] = sorted(set(new))[:3]
            elif r['status'] == 'undecided':
                j['outcome'] = 'undecided'
                j['reason'] = (r['reason'] or '')[:200]
            else:
                j['outcome'] = 'alive'
            return j
        finally:
            shutil.rmtree(tmp, ignore_errors=True)

    res = []
    with cf.ThreadPoolExecutor(max_workers=int(os.environ.get('SD_JOBS', '10'))) as ex:
        for r in ex.map(one, jobs):
            res.append(r)
            if r['outcome'] == 'alive':
                print('ALIVE %s %s :: %s' % (r['unit'], r['fn'], r['text']), flush=True)
    out = os.path.join(driver.VERIF, 'mutants', 'stmt_deletion_last.json')
    json.dump(res, open(out, 'w'), indent=1)
    from collections import Counter
    print(Counter(r['outcome'] for r in res), file=sys.stderr)


if __name__ == '__main__':
    main()
